//! C13 — tokens expire by default; only an explicit acknowledgement removes exp.
//! C17 — a repeated top-level claim makes the batteries-included build fail.
//! Scenario `paseto-builder-history` (shared).

use super::common::*;
use super::run_rng;
use crate::civil::{self, NS};
use crate::gen::*;
use crate::model::*;
use crate::oracle;
use crate::prng::Rng;
use crate::runner::Scenario;
use serde_json::json;

pub static C13: Scenario = Scenario {
    property: "C13",
    level: "exploration",
    rule: "paseto-builder-history, all 8 protocols in rotation: a PasetoBuilder::default() is created at simulated time T_c (swept: whole second, +1 ns, +999999999 ns, leap day, year end, 2038/2262 boundaries, 1971, 8999, random) and then driven by a call sequence over the 10-symbol alphabet {set exp, set nbf, set iat, set iss|sub|aud|jti, set custom, set_no_expiration_danger_acknowledged, set_footer, set_implicit_assertion, build, build-that-fails (entropy fault for local, malformed signing key for public)}; build may occur anywhere and repeatedly and one more build is appended. ALL sequences up to length 4 (quick) / 6 (thorough, 10^6) are swept systematically, longer ones (to 40) are seeded-random. Every successful build is delivered cleanly and read back with a validator-free GenericParser. Oracle per build: acknowledged -> no exp member; otherwise an exp member; without caller-supplied exp/iat/nbf: iat == nbf == T_c and exp == T_c + 1h as instants. Non-trivial = the sequence has at least one call before a build or more than one build; distinct = distinct abstract traces.",
    runs: |t| match t {
        Tier::Quick => 11_111 + 12_000,
        Tier::Thorough => 1_111_111 + 500_000,
    },
    gen: |c, i| gen(c, i, "C13"),
    judge: |run, obs| oracle::judge("C13", run, obs),
    assumptions: &["read-back uses a validator-free GenericParser; a build whose token cannot be read back is counted unjudged (round trip is C01/C02)"],
    exhaustive: &["all call sequences of length 0..=4 (quick) / 0..=6 (thorough) over the 10-symbol alphabet, plus one final build"],
};

pub static C17: Scenario = Scenario {
    property: "C17",
    level: "exploration",
    rule: "paseto-builder-history over the 12-symbol alphabet {set exp, nbf, iat, iss, sub, aud, jti, custom a, custom b, acknowledgement, set_footer, build}: ALL sequences up to length 4 (quick) / 6 (thorough, 12^6) swept systematically with one more build appended, random ones to length 40; build may occur anywhere and repeatedly so every prefix is judged. Reference model: set of supplied keys with a sticky duplicate flag. Oracle at each build: a key supplied twice -> Err(DuplicateTopLevelPayloadClaim(k)) with k a duplicated key, no token, at that and every later build; otherwise Ok and the read-back token carries each caller-supplied value. Latitude: exp after the acknowledgement (either refused, then sticky, or ignored). Non-trivial as C13; distinct = distinct abstract traces.",
    runs: |t| match t {
        Tier::Quick => 22_621 + 8_000,
        Tier::Thorough => 3_257_437 + 500_000,
    },
    gen: |c, i| gen(c, i, "C17"),
    judge: |run, obs| oracle::judge("C17", run, obs),
    assumptions: &["failing builds (entropy fault / malformed key) are expected to return Err and leave the duplicate verdict unchanged"],
    exhaustive: &["all call sequences of length 0..=4 (quick) / 0..=6 (thorough) over the 12-symbol alphabet, plus one final build"],
};

fn tc(r: &mut Rng, i: u64) -> i128 {
    if i % 11 == 10 {
        // the days around New Year, where week-based and calendar years (and years themselves) change
        let (y, m, d) = *r.pick(&[(2024, 12, 29), (2024, 12, 30), (2024, 12, 31), (2025, 12, 29), (2025, 12, 31), (2026, 1, 1), (2027, 1, 1), (2027, 1, 3), (2028, 1, 2), (2032, 12, 27), (2033, 1, 2), (2020, 12, 31), (2021, 1, 3)]);
        let (h, mi) = *r.pick(&[(0u32, 0u32), (0, 30), (12, 0), (22, 59), (23, 0), (23, 30), (23, 59)]);
        return civil::ns_from_ymd_hms(y, m, d, h, mi, r.below(60) as u32, if r.chance(1, 2) { 0 } else { r.below(1_000_000_000) as u32 });
    }
    match i % 9 {
        0 => civil::ns_from_ymd_hms(2024, 5, 5, 12, 0, 0, 0),
        1 => civil::ns_from_ymd_hms(2024, 5, 5, 12, 0, 0, 1),
        2 => civil::ns_from_ymd_hms(2024, 5, 5, 12, 0, 0, 999_999_999),
        3 => civil::ns_from_ymd_hms(2024, 2, 29, 23, 30, 0, 500_000_000),
        4 => civil::ns_from_ymd_hms(2031, 12, 31, 23, 59, 59, 999_999_999),
        5 => T_1971 + r.range(0, DAY),
        6 => civil::ns_from_ymd_hms(8999, 12, 31, 22, 59, 59, 0),
        7 => civil::ns_from_ymd_hms(2024, 5, 5, 12, 0, 0, 120_000_000),
        _ => gen_now(r),
    }
}

#[derive(Clone, Copy, PartialEq)]
enum Sym {
    Exp,
    Nbf,
    Iat,
    Iss,
    Sub,
    Aud,
    Jti,
    CustomA,
    CustomB,
    Ack,
    Footer,
    Assertion,
    Build,
    FailBuild,
}

const ALPHA13: [Sym; 10] = [Sym::Exp, Sym::Nbf, Sym::Iat, Sym::Iss, Sym::CustomA, Sym::Ack, Sym::Footer, Sym::Assertion, Sym::Build, Sym::FailBuild];
const ALPHA17: [Sym; 12] = [Sym::Exp, Sym::Nbf, Sym::Iat, Sym::Iss, Sym::Sub, Sym::Aud, Sym::Jti, Sym::CustomA, Sym::CustomB, Sym::Ack, Sym::Footer, Sym::Build];

/// decode run index into a sequence over an alphabet of size k: all sequences of length 0..=maxlen
fn systematic(mut i: u64, k: u64, maxlen: u32) -> Option<Vec<usize>> {
    for len in 0..=maxlen {
        let count = k.pow(len);
        if i < count {
            let mut v = vec![];
            for _ in 0..len {
                v.push((i % k) as usize);
                i /= k;
            }
            return Some(v);
        }
        i -= count;
    }
    None
}

fn gen(ctx: &GenCtx, i: u64, prop: &str) -> Option<Run> {
    let mut r = run_rng(ctx, prop, i);
    let (alpha, maxlen): (&[Sym], u32) = if prop == "C13" {
        (&ALPHA13, if ctx.tier == Tier::Quick { 4 } else { 6 })
    } else {
        (&ALPHA17, if ctx.tier == Tier::Quick { 4 } else { 6 })
    };
    let seq: Vec<Sym> = match systematic(i, alpha.len() as u64, maxlen) {
        Some(v) => v.into_iter().map(|x| alpha[x]).collect(),
        None => {
            let n = 1 + r.usize(40);
            (0..n)
                .map(|_| {
                    // builds and duplicates somewhat more likely than uniform
                    if r.chance(1, 5) {
                        Sym::Build
                    } else {
                        *r.pick(alpha)
                    }
                })
                .collect()
        }
    };
    // protocol rotation; the slow ones rarely
    let proto = match i % 16 {
        0 => Proto::V3P,
        1 => Proto::V1P,
        2 | 3 => Proto::V2P,
        4 | 5 => Proto::V4P,
        6 | 7 => Proto::V1L,
        8 | 9 => Proto::V2L,
        10..=12 => Proto::V3L,
        _ => Proto::V4L,
    };
    let mut rb = RunBuilder::new(prop, "paseto-builder-history", ctx.verif_seed, i);
    let created = tc(&mut r, i / 16 + i);
    let kspec = key_for(proto, &mut r);
    let key = rb.key(kspec);
    let bad_key = if proto.is_local() {
        None
    } else {
        Some(rb.key(match proto {
            Proto::V3P => KeySpec::RawPrivate { hex: "00".repeat(48) },
            Proto::V1P => KeySpec::RawPrivate { hex: "3082".into() },
            _ => KeySpec::RawPrivate { hex: "0102030405".into() },
        }))
    };
    let b = rb.builder_id();
    rb.push(Op::NewBuilder { b, proto, layer: Layer::Batteries, now_ns: Ns(created), hash_seed: r.next() });
    // the custom keys of this run: usually short, sometimes long, multi-byte, or shaped like JSON syntax
    let key_a: String = match r.below(10) {
        0 => "k".repeat(70),
        1 => format!("{}é{}", "k".repeat(63), "z".repeat(10)),
        2 => "中".repeat(30),
        3 => "x\":0,\"exp\":\"2999-01-01T00:00:00+00:00\",\"y".to_string(),
        4 => "a\",\"exp\":null,\"b".to_string(),
        5 => "exp\u{0}".to_string(),
        6 => " exp".to_string(),
        7 if r.chance(1, 2) => (*r.pick(&["Exp", "EXP", "Iat", "NBF", "Nbf", "AUD", "Iss", "A", "JTI"])).to_string(),
        // the empty key: the generic builder documents that it ignores it; a repeat is still a repeat
        8 if r.chance(1, 2) => String::new(),
        _ => "a".to_string(),
    };
    let key_b: String = if r.chance(1, 5) { format!("{}😀{}", "b".repeat(62), "b".repeat(8)) } else { "b".to_string() };
    // one run in ten: two DIFFERENT keys that collide under a popular non-cryptographic hash (FNV-1a 32,
    // Java hashCode, CRC-32, djb2): they are two claims, not a repeated one
    let (key_a, key_b) = if r.chance(1, 10) {
        let (a, b) = *r.pick(&[("costarring", "liquid"), ("declinate", "macallums"), ("altarage", "zinke"), ("Aa", "BB"), ("AaAa", "BBBB"), ("plumless", "buckeroo"), ("hetairas", "mentioner"), ("heliotropes", "neurospora"), ("depravement", "serafins"), ("stylist", "subgenera"), ("playwright", "snush")]);
        (a.to_string(), b.to_string())
    } else {
        (key_a, key_b)
    };
    let bare = r.chance(1, 6);
    let mut footer: Option<String> = None;
    let mut assertion: Option<String> = None;
    let mut seq = seq;
    seq.push(Sym::Build);
    let mut read_at = created;
    // the time-claim constructors take ISO 8601 text: forms that are ISO 8601 but not RFC 3339 are accepted
    // by them and travel as given
    fn iso_not_rfc(r: &mut Rng, t: i128) -> String {
        let st = crate::civil::Style { offset_min: *r.pick(&[0, 60, -300, 330]), frac_digits: 0, sep: 'T', zulu: None };
        let s = crate::civil::render(t, st); // yyyy-mm-ddThh:mm:ss+hh:mm
        match r.below(5) {
            0 => format!("{}{}", &s[..22], &s[23..]),                          // +hhmm
            1 => format!("{}{}", &s[..16], &s[19..]),                          // no seconds
            2 => s[..19].to_string(),                                          // no offset
            3 => format!("{}{}{}T{}{}{}Z", &s[..4], &s[5..7], &s[8..10], &s[11..13], &s[14..16], &s[17..19]), // basic format
            _ => format!("{}{}", &s[..19], &s[19..22]),                        // +hh
        }
    }
    for (n, s) in seq.iter().enumerate() {
        let set = |c: ClaimSpec| Op::BuilderOp { b, op: BOp::SetClaim(c) };
        let odd_iso = r.chance(1, 6);
        match s {
            Sym::Exp if odd_iso => {
                let t = created + r.range(60 * NS, 10 * DAY);
                rb.push(set(ClaimSpec::Exp(iso_not_rfc(&mut r, t - t.rem_euclid(NS)))));
            }
            Sym::Nbf if odd_iso => {
                let t = created - r.range(2 * NS, 10 * DAY).min(created - T_1971 + NS) + NS;
                rb.push(set(ClaimSpec::Nbf(iso_not_rfc(&mut r, t - t.rem_euclid(NS)))));
            }
            Sym::Iat if odd_iso => {
                let t = created - r.range(0, DAY).min(created - T_1971);
                rb.push(set(ClaimSpec::Iat(iso_not_rfc(&mut r, t - t.rem_euclid(NS)))));
            }
            Sym::Exp => {
                let t = created + r.range(60 * NS, 10 * DAY);
                rb.push(set(ClaimSpec::Exp(render_canonical_t(&mut r, t - t.rem_euclid(NS)))));
            }
            Sym::Nbf => {
                // usually in the past; sometimes beyond the default expiry (a token valid "from tomorrow")
                let t = if r.chance(1, 4) { created + r.range(HOUR, 3 * DAY) } else { created - r.range(2 * NS, 10 * DAY).min(created - T_1971 + NS) + NS };
                rb.push(set(ClaimSpec::Nbf(render_canonical_t(&mut r, t - t.rem_euclid(NS)))));
            }
            Sym::Iat => {
                let t = created - r.range(0, DAY).min(created - T_1971);
                rb.push(set(ClaimSpec::Iat(render_canonical_t(&mut r, t - t.rem_euclid(NS)))));
            }
            Sym::Iss => {
                let v = format!("v{}", n);
                rb.push(set(match (prop, r.below(4)) {
                    ("C13", 1) => ClaimSpec::Sub(v),
                    ("C13", 2) => ClaimSpec::Aud(v),
                    ("C13", 3) => ClaimSpec::Jti(v),
                    _ => ClaimSpec::Iss(v),
                }));
            }
            Sym::Sub => rb.push(set(ClaimSpec::Sub(format!("v{}", n)))),
            Sym::Aud => rb.push(set(ClaimSpec::Aud(format!("v{}", n)))),
            Sym::Jti => rb.push(set(ClaimSpec::Jti(format!("v{}", n)))),
            Sym::CustomA => {
                let value = match r.below(12) {
                    0..=5 => json!(n),
                    // nested members named like registered claims: only top-level names are claims
                    6 => json!({"exp": "x", "iat": n}),
                    7 => json!([{"nbf": null}, {"nbf": null}]),
                    8 => json!({"a": {"exp": 1, "b": {"exp": 2}}, "iss": {"iss": "i"}, "jti": "j", "sub": ["sub"], "aud": {"aud": {"aud": 0}}}),
                    // an object with a member named like the claim itself next to members named like time claims
                    9 => json!({ key_a.clone(): n, "exp": "2099-01-01T00:00:00Z", "iat": "2001-01-01T00:00:00Z", "nbf": "2001-01-01T00:00:00Z" }),
                    _ => gen_json(&mut r, 2),
                };
                rb.push(set(if bare { ClaimSpec::Bare { key: key_a.clone(), value: if value.is_object() { json!(n) } else { value } } } else { ClaimSpec::Custom { key: key_a.clone(), value } }));
            }
            Sym::CustomB => rb.push(set(if bare { ClaimSpec::Bare { key: key_b.clone(), value: json!([format!("b{}", n)]) } } else { ClaimSpec::Custom { key: key_b.clone(), value: json!(format!("b{}", n)) } })),
            Sym::Ack => rb.push(Op::BuilderOp { b, op: BOp::Ack }),
            Sym::Footer => {
                let f = if r.chance(1, 5) { String::new() } else { format!("f{}", n) };
                footer = Some(f.clone());
                rb.push(Op::BuilderOp { b, op: BOp::SetFooter(f) });
            }
            Sym::Assertion => {
                let a = format!("a{}", n);
                if proto.has_assertion() {
                    assertion = Some(a.clone());
                }
                rb.push(Op::BuilderOp { b, op: BOp::SetAssertion(a) });
            }
            Sym::Build | Sym::FailBuild => {
                let fail = *s == Sym::FailBuild;
                let out = rb.msg();
                let k = if fail { bad_key.unwrap_or(key) } else { key };
                rb.push(Op::Build {
                    b,
                    key: k,
                    out,
                    entropy_seed: r.next(),
                    entropy_fail: if fail && proto.is_local() { vec![0] } else { vec![] },
                    observe: false,
                    now_ns: Ns(SENTINEL_NOW),
                });
                // read back through a validator-free GenericParser (clock jumps between builds do not
                // matter to it; the simulated delivery time still advances)
                read_at += r.range(1, 3 * HOUR);
                let spec = VerifierSpec { proto, layer: Layer::Generic, key, footer: footer.clone(), assertion: assertion.clone(), default_validators: false, expect: vec![], expect_via_extend: false, validators: vec![], hash_seed: r.next() };
                let v = rb.verifier(spec);
                rb.deliver(out, v, read_at);
            }
        }
    }
    Some(rb.finish())
}
