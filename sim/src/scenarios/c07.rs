//! C07 — tokens are bound to their version and purpose.  Scenario `misroute-protocol`, all 56 ordered
//! pairs; pairs that straddle the two feature-set binaries go through the outbox exchange.

use super::common::*;
use super::run_rng;
use crate::gen::*;
use crate::model::*;
use crate::oracle;
use crate::runner::Scenario;
use serde_json::json;

pub static SCENARIO: Scenario = Scenario {
    property: "C07",
    level: "exploration",
    rule: "misroute-protocol: all 56 ordered pairs (X, Y), X != Y, visited in rotation (run index mod 56), complete in every tier: an authentic token of X (issued at the core, generic or batteries layer, message lengths of every class so that payloads shorter than Y's nonce+tag/signature occur) is presented to the core, generic and batteries entry points of Y (parsers carry logging validators) (i) verbatim and (ii) with its header text replaced by Y's. Key material: the same 32 bytes for every local<->local pair and the same Ed25519 pair for v2.public<->v4.public, otherwise Y's own key. The six pairs straddling the feature-set binaries (v3.public <-> v1/v2/v4.public) use tokens imported from the other binary's outbox. Every run is non-trivial; distinct = distinct abstract traces.",
    runs: |t| match t {
        Tier::Quick => 56 * 100,
        Tier::Thorough => 56 * 7500,
    },
    gen,
    judge: |run, obs| oracle::judge("C07", run, obs),
    assumptions: &["cross-set pairs are checked on tokens recorded by the other binary (outbox exchange), not issued in-process"],
    exhaustive: &["all 56 ordered protocol pairs (run index mod 56), verbatim and relabelled, at the 3 entry points of the receiving protocol"],
};

fn is_set_a_public(p: Proto) -> bool {
    matches!(p, Proto::V1P | Proto::V2P | Proto::V4P)
}

fn gen(ctx: &GenCtx, i: u64) -> Option<Run> {
    let mut r = run_rng(ctx, "C07", i);
    let pair = (i % 56) as usize;
    let x = ALL_PROTOS[pair / 7];
    let y = {
        let others: Vec<Proto> = ALL_PROTOS.iter().cloned().filter(|p| *p != x).collect();
        others[pair % 7]
    };
    let mut rb = RunBuilder::new("C07", "misroute-protocol", ctx.verif_seed, i);
    let now = gen_now(&mut r);
    let straddles = (x == Proto::V3P && is_set_a_public(y)) || (y == Proto::V3P && is_set_a_public(x));
    // ---- the token of X
    let (msg_id, xkey_spec, footer, at) = if straddles {
        let cands: Vec<&InboxToken> = ctx.inbox.iter().filter(|t| t.proto == x).collect();
        if cands.is_empty() {
            return None;
        }
        let t = cands[r.usize(cands.len())];
        let k = rb.key(t.key.clone());
        let out = rb.msg();
        rb.push(Op::Imported { out, text: t.text.clone(), proto: x, key: k, payload: t.payload.clone(), footer: t.footer.clone(), assertion: t.assertion.clone() });
        (out, t.key.clone(), t.footer.clone(), now)
    } else {
        let kx = key_for(x, &mut r);
        let key = rb.key(kx.clone());
        let layer = ALL_LAYERS[((i / 56) % 3) as usize];
        let slow = matches!(x, Proto::V3P | Proto::V1P) || matches!(y, Proto::V3P);
        // half of the runs: a raw message whose length sits on the nonce/tag/signature arithmetic of the
        // other protocols (a relabelled short token must not slip through a weakened receiver)
        let raw = layer == Layer::Core && r.chance(1, 2);
        let mlen = if raw {
            *r.pick(&[0usize, 0, 1, 1, 2, 8, 15, 16, 17, 24, 31, 32, 33, 40, 48, 56, 64, 96])
        } else if slow {
            *r.pick(&[0usize, 1, 40, 100, 200])
        } else {
            gen_len(&mut r, false)
        };
        let footer = gen_opt_text(&mut r).map(|f| f.chars().take(12).collect::<String>());
        let assertion = if x.has_assertion() && r.chance(1, 3) { Some(nonempty_text!(r, 8)) } else { None };
        let msg = ascii!(r, mlen);
        let jp = if !raw && r.chance(2, 3) { Some(json!({"data": msg.clone(), "sub": "s"})) } else { None };
        let opts = IssueOpts { proto: x, layer, key, footer: footer.clone(), assertion: assertion.clone(), now, message: msg, json_payload: jp, extra_claims: vec![] };
        let t = if matches!(x, Proto::V3L | Proto::V4L) && !y.is_local() && (i / 56) % 2 == 0 {
            // the nonce of v3/v4.local travels verbatim: with a printable (or JSON) nonce and a message of
            // 32..=64+ bytes, the part of the body that a public protocol would take for the *message* is
            // well-formed text, so nothing but the signature check stands between the relabelled token and Ok
            let out = rb.msg();
            let tail = y.tail_len();
            let mlen = tail.saturating_sub(x.tail_len()) + *r.pick(&[0usize, 1, 8, 12, 20, 32]);
            let nonce = printable(&mut r, 32);
            rb.push(Op::CoreIssue { proto: x, key, nonce_hex: hex::encode(nonce), payload: ascii!(r, mlen), footer: footer.clone(), assertion: assertion.clone(), out, order: 0, rebuild: false });
            TokenDesc { msg: out, proto: x, layer: Layer::Core, key, footer: footer.clone(), assertion: if x.has_assertion() { assertion.clone() } else { None }, issued_at: now, builder: None }
        } else {
            issue(&mut rb, &mut r, opts)
        };
        let at = t.issued_at + r.range(1, HOUR - 2);
        // the token is first verified where it belongs (X): nothing learnt there may help it at Y
        let vx_layer = if t.layer == Layer::Core { Layer::Core } else { random_layer(&mut r) };
        let mut sx = plain_spec(&t, vx_layer);
        sx.default_validators = vx_layer == Layer::Batteries;
        let vx = rb.verifier(sx);
        rb.deliver(t.msg, vx, at);
        (t.msg, kx, footer, at)
    };
    // ---- Y's key: shared bytes where both protocols accept them
    let ky = if x.is_local() && y.is_local() {
        xkey_spec.clone()
    } else if matches!((x, y), (Proto::V2P, Proto::V4P) | (Proto::V4P, Proto::V2P)) {
        xkey_spec.clone()
    } else {
        key_for(y, &mut r)
    };
    let kyi = rb.key(ky);
    let relabelled = rb.fault(msg_id, FaultKind::Relabel { to: y }, None);
    // the mirror image: an authentic token of Y whose header text is rewritten to X's is presented to Y
    // (the body is right for Y, only the header names another protocol)
    let y_own = if true {
        let opts = IssueOpts { proto: y, layer: Layer::Core, key: kyi, footer: footer.clone(), assertion: None, now, message: "{\"data\":\"y\"}".into(), json_payload: None, extra_claims: vec![] };
        let ty = issue(&mut rb, &mut r, opts);
        Some(rb.fault(ty.msg, FaultKind::Relabel { to: x }, None))
    } else {
        None
    };
    for layer in ALL_LAYERS {
        let spec = VerifierSpec {
            proto: y,
            layer,
            key: kyi,
            footer: footer.clone(),
            assertion: None,
            default_validators: layer == Layer::Batteries,
            expect: vec![],
            expect_via_extend: false,
            validators: if layer == Layer::Core { vec![] } else { super::c03::validators_for_data() },
            hash_seed: r.next(),
        };
        let v = rb.verifier(spec);
        rb.deliver(msg_id, v, at);
        rb.deliver(relabelled, v, at);
        if let Some(m) = y_own {
            rb.deliver(m, v, at);
        }
    }
    Some(rb.finish())
}
