//! C03 — any alteration of an authentic token is detected before its content is used.
//! Scenario `corrupt-in-transit` (fault_enumeration).

use super::common::*;
use super::run_rng;
use crate::env::Behaviour;
use crate::gen::*;
use crate::model::*;
use crate::oracle;
use crate::prng::Rng;
use crate::runner::Scenario;
use serde_json::json;

pub static SCENARIO: Scenario = Scenario {
    property: "C03",
    level: "fault_enumeration",
    rule: "corrupt-in-transit: an authentic token of any protocol/layer (message <= 300 bytes) is hit by a channel fault before delivery to its otherwise matching verifier (core try_decrypt/try_verify, GenericParser, PasetoParser, the parsers with logging validators registered and a freshly built twin). Per sampled token one or more fault families are enumerated COMPLETELY: all single-bit flips of the decoded payload; all single-bit flips of the decoded footer; every character position substituted by {next base64url symbol, 'A', '.', '=', a non-ASCII char}; every proper prefix; suffix extensions by 1..4 symbols / one decoded byte; all shifts of the body/tail and payload/footer boundaries by +-1..4; sampled: splices with a second authentic token of the same protocol and key (nonce | body | tail | footer), non-canonical base64 (trailing bits, '=' padding), random multi-byte edits, inserted/deleted characters, footer edits, ECDSA s-negation (v3.public). Tolerated exactly as the property states: trailing '.' added/removed and signature-only re-encoding of public tokens, which may be accepted only with identical content. Distinct = distinct abstract traces; every run is non-trivial (it contains faults).",
    runs: |t| match t {
        Tier::Quick => 2_400,
        Tier::Thorough => 150_000,
    },
    gen,
    judge: |run, obs| oracle::judge("C03", run, obs),
    assumptions: &[
        "the verifier is otherwise matching (right key, footer, assertion): mismatches are C04-C07",
        "an altered string that coincides with another authentic token of the same run is not judged (counted as unjudged)",
    ],
    exhaustive: &["per sampled token (message <= 300 B): all single-bit flips of the decoded payload", "per sampled token: all single-bit flips of the decoded footer", "per sampled token: every character position x {next base64url symbol, A, ., =, non-ASCII}", "per sampled token: every proper prefix", "per sampled token: boundary shifts +-1..4, listed extensions, listed footer edits"],
};

pub fn validators_for_data() -> Vec<ValidatorSpec> {
    vec![
        ValidatorSpec { claim: ClaimSpec::Custom { key: "data".into(), value: json!("") }, behaviour: Behaviour::Accept, via: Via::Validate },
        ValidatorSpec { claim: ClaimSpec::Sub(String::new()), behaviour: Behaviour::Accept, via: Via::Validate },
    ]
}

/// Emits every fault of `family` for a token whose text length / decoded sizes are bounded as given.
#[allow(clippy::too_many_arguments)]
pub fn emit_family(rb: &mut RunBuilder, r: &mut Rng, family: u64, src: u32, other: Option<u32>, text_bound: usize, payload_bound: usize, footer_len: usize, proto: Proto, out: &mut Vec<u32>) {
    match family {
        0 => {
            for bit in 0..payload_bound * 8 {
                out.push(rb.fault(src, FaultKind::BitFlip { seg: Seg::Payload, bit }, None));
            }
        }
        1 => {
            for bit in 0..footer_len * 8 {
                out.push(rb.fault(src, FaultKind::BitFlip { seg: Seg::Footer, bit }, None));
            }
        }
        2 => {
            for pos in 0..text_bound {
                out.push(rb.fault(src, FaultKind::CharNext { pos }, None));
                for c in ['A', '.', '=', 'é'] {
                    out.push(rb.fault(src, FaultKind::CharSubst { pos, c }, None));
                }
            }
        }
        3 => {
            for n in 0..text_bound {
                out.push(rb.fault(src, FaultKind::Truncate { n }, None));
            }
        }
        4 => {
            for t in ["A", "AA", "AAA", "AAAA", "_", "-", "=", ".", "..", ".A", "\0", " ", "\n"] {
                out.push(rb.fault(src, FaultKind::Extend { text: t.to_string() }, None));
            }
            for seg in [Seg::Payload, Seg::Footer] {
                for h in ["00", "ff", "0000", "41"] {
                    out.push(rb.fault(src, FaultKind::ExtendDecoded { seg: seg.clone(), hex: h.to_string() }, None));
                }
            }
        }
        5 => {
            for k in [-4, -3, -2, -1, 1, 2, 3, 4] {
                out.push(rb.fault(src, FaultKind::ShiftBodyTail { k }, None));
                out.push(rb.fault(src, FaultKind::ShiftPayloadFooter { k }, None));
            }
        }
        6 => {
            if let Some(o) = other {
                for part in [SplicePart::Nonce, SplicePart::Body, SplicePart::Tail, SplicePart::Footer] {
                    out.push(rb.fault(src, FaultKind::Splice { part }, Some(o)));
                }
            }
        }
        7 => {
            for seg in [Seg::Payload, Seg::Footer] {
                for bits in 1..16u8 {
                    out.push(rb.fault(src, FaultKind::TrailingBits { seg: seg.clone(), bits }, None));
                }
                for n in 1..=3 {
                    out.push(rb.fault(src, FaultKind::Pad { seg: seg.clone(), n }, None));
                }
                out.push(rb.fault(src, FaultKind::AlphabetSwap { seg: seg.clone() }, None));
            }
        }
        8 => {
            for _ in 0..40 {
                let seg = if footer_len > 0 && r.chance(1, 4) { Seg::Footer } else { Seg::Payload };
                let lim = if seg == Seg::Footer { footer_len } else { payload_bound };
                if lim == 0 {
                    continue;
                }
                let len = 1 + r.usize(8.min(lim));
                let at = r.usize(lim - len + 1);
                let hex = hex::encode(r.bytes(len));
                out.push(rb.fault(src, FaultKind::RandomEdit { seg, at, hex }, None));
            }
            for _ in 0..20 {
                let pos = r.usize(text_bound.max(1));
                let c = *r.pick(&['A', 'z', '0', '-', '_', '.', '=', ' ', 'é']);
                out.push(rb.fault(src, FaultKind::InsertChar { pos, c }, None));
                out.push(rb.fault(src, FaultKind::DeleteChar { pos }, None));
            }
        }
        9 => {
            for t in ["", "x", "foo", "Zm9v"] {
                out.push(rb.fault(src, FaultKind::FooterReplace { text: t.to_string() }, None));
                out.push(rb.fault(src, FaultKind::AddFooter { text: t.to_string() }, None));
            }
            out.push(rb.fault(src, FaultKind::DropFooter, None));
            out.push(rb.fault(src, FaultKind::AddEmptyFooter, None));
            out.push(rb.fault(src, FaultKind::RemoveEmptyFooter, None));
        }
        _ => {
            if proto == Proto::V3P {
                out.push(rb.fault(src, FaultKind::SigNegateS, None));
            }
        }
    }
}

/// the footer segment re-encoded from bytes that are NOT the footer's UTF-8: one character at a time
/// replaced by an ill-formed sequence (a lenient decoder maps every such sequence to U+FFFD), and the whole
/// footer replaced by short ill-formed strings
pub fn raw_footer_edits(rb: &mut RunBuilder, src: u32, footer: &str, out: &mut Vec<u32>) {
    const BAD: [&[u8]; 6] = [&[0xff], &[0x80], &[0xc3], &[0xf0, 0x9f, 0x98], &[0xed, 0xa0, 0x80], &[0xef, 0xbf]];
    let idx: Vec<(usize, char)> = footer.char_indices().collect();
    // every U+FFFD of the footer, and a few other positions
    let mut picks: Vec<usize> = idx.iter().enumerate().filter(|(_, (_, c))| *c == '\u{fffd}').map(|(n, _)| n).collect();
    for n in [0usize, idx.len() / 2, idx.len().saturating_sub(1)] {
        if n < idx.len() && !picks.contains(&n) {
            picks.push(n);
        }
    }
    for n in picks.into_iter().take(6) {
        let (at, ch) = idx[n];
        for bad in BAD {
            let mut raw = footer.as_bytes()[..at].to_vec();
            raw.extend_from_slice(bad);
            raw.extend_from_slice(&footer.as_bytes()[at + ch.len_utf8()..]);
            out.push(rb.fault(src, FaultKind::FooterReplaceRaw { hex: hex::encode(raw) }, None));
        }
    }
    for bad in BAD {
        out.push(rb.fault(src, FaultKind::FooterReplaceRaw { hex: hex::encode(bad) }, None));
    }
}

/// long tokens: integrity must cover every byte, also far beyond the first few kilobytes.  Complete
/// sweeps are too expensive here; faults are sampled with a bias to 4 KiB / 64 KiB boundaries and to
/// the last bytes in front of the tag / signature.
fn gen_long(ctx: &GenCtx, i: u64) -> Option<Run> {
    let mut r = run_rng(ctx, "C03", i);
    let proto = *r.pick(&[Proto::V1L, Proto::V2L, Proto::V3L, Proto::V4L, Proto::V2P, Proto::V4P, Proto::V4L, Proto::V2L]);
    let mut rb = RunBuilder::new("C03", "corrupt-in-transit/long-token", ctx.verif_seed, i);
    let now = gen_now(&mut r);
    let key = rb.key(key_for(proto, &mut r));
    let mlen = *r.pick(&[4096usize, 4097, 8192, 16_385, 65_536, 65_537, 70_001, 131_073]);
    let layer = if r.chance(1, 2) { Layer::Core } else { Layer::Generic };
    let msg = ascii!(r, mlen);
    let footer = if r.chance(1, 2) { Some(ascii!(r, 1 + r.usize(5000))) } else { None };
    let opts = IssueOpts { proto, layer, key, footer: footer.clone(), assertion: None, now, message: msg.clone(), json_payload: if layer == Layer::Core && r.chance(1, 2) { Some(json!({"data": msg})) } else { None }, extra_claims: vec![] };
    let t = issue(&mut rb, &mut r, opts);
    let mut spec = plain_spec(&t, if layer == Layer::Core { Layer::Core } else { random_layer(&mut r) });
    if spec.layer != Layer::Core {
        spec.validators = validators_for_data();
    }
    let v = rb.verifier(spec);
    let at = t.issued_at + 1_000_000;
    let body = mlen + if layer == Layer::Core { 0 } else { 20 };
    let total = proto.nonce_len() + body + proto.tail_len();
    let mut outs = vec![];
    let mut positions: Vec<usize> = vec![0, 1, proto.nonce_len(), proto.nonce_len() + 1, total - proto.tail_len() - 1, total - proto.tail_len(), total - 1];
    for k in [4095usize, 4096, 4097, 8191, 8192, 16_383, 16_384, 32_768, 65_535, 65_536, 65_537, 131_072] {
        if k < total {
            positions.push(k);
            positions.push(proto.nonce_len() + k);
        }
    }
    for _ in 0..24 {
        positions.push(r.usize(total));
    }
    for p in positions {
        if p < total {
            outs.push(rb.fault(t.msg, FaultKind::BitFlip { seg: Seg::Payload, bit: p * 8 + r.usize(8) }, None));
        }
    }
    if let Some(f) = &footer {
        for p in [0usize, f.len() / 2, f.len().saturating_sub(1), 4095.min(f.len() - 1)] {
            outs.push(rb.fault(t.msg, FaultKind::BitFlip { seg: Seg::Footer, bit: p * 8 }, None));
        }
    }
    let text_len = proto.header().len() + (total * 4 + 2) / 3;
    for n in [text_len / 2, text_len - 1, text_len - 2, 4096, 65_536] {
        outs.push(rb.fault(t.msg, FaultKind::Truncate { n }, None));
    }
    for m in outs {
        rb.deliver(m, v, at);
    }
    rb.deliver(t.msg, v, at);
    Some(rb.finish())
}

/// public tokens: the message ends in LE64(0) followed by filler; the re-split moves that tail into a new
/// footer (filler || LE64(0)).  With a sound length prefix the two encodings differ; with one that aliases
/// lengths n and n + p they coincide and the untouched signature verifies content that was never signed.
fn gen_crafted_resplit(ctx: &GenCtx, i: u64) -> Option<Run> {
    let mut r = run_rng(ctx, "C03", i);
    let proto = *r.pick(&[Proto::V4P, Proto::V2P, Proto::V4P, Proto::V1P, Proto::V3P]);
    let mut rb = RunBuilder::new("C03", "corrupt-in-transit/crafted-resplit", ctx.verif_seed, i);
    let now = gen_now(&mut r);
    let key = rb.key(key_for(proto, &mut r));
    for p in [128usize, 256, 64, 512, 65_536] {
        if p > 512 && !r.chance(1, 4) {
            continue;
        }
        let head = if r.chance(1, 2) { format!("{{\"sub\":\"admin\",\"n\":{}}}", r.below(1000)) } else { ascii!(r, r.usize(40)) };
        let filler = ascii!(r, p - 8);
        let msg = format!("{}{}{}", head, "\u{0}".repeat(8), filler);
        let opts = IssueOpts { proto, layer: Layer::Core, key, footer: None, assertion: None, now, message: msg, json_payload: None, extra_claims: vec![] };
        let t = issue(&mut rb, &mut r, opts);
        let forged = rb.fault(t.msg, FaultKind::RotateMsgTailToFooter { p }, None);
        // the verifier expects exactly the footer the forged token carries
        let vfooter = format!("{}{}", filler, "\u{0}".repeat(8));
        for vlayer in [Layer::Core, Layer::Generic, Layer::Batteries] {
            let spec = VerifierSpec { proto, layer: vlayer, key, footer: Some(vfooter.clone()), assertion: None, default_validators: false, expect: vec![], expect_via_extend: false, validators: vec![], hash_seed: 0 };
            let v = rb.verifier(spec);
            rb.deliver(forged, v, now + 1000);
        }
    }
    Some(rb.finish())
}

fn gen(ctx: &GenCtx, i: u64) -> Option<Run> {
    if i % 12 == 11 {
        return gen_long(ctx, i);
    }
    if i % 12 == 10 && (i / 12) % 4 == 0 {
        return gen_crafted_resplit(ctx, i);
    }
    let mut r = run_rng(ctx, "C03", i);
    let proto = if i < 8 { ALL_PROTOS[i as usize] } else { weighted_proto(&mut r) };
    let layer = random_layer(&mut r);
    let mut rb = RunBuilder::new("C03", "corrupt-in-transit", ctx.verif_seed, i);
    let now = gen_now(&mut r);
    let key = rb.key(key_for(proto, &mut r));
    let slow = matches!(proto, Proto::V3P | Proto::V1P);
    let mlen = if slow {
        r.usize(24)
    } else if r.chance(1, 2) {
        *r.pick(&[0usize, 1, 15, 16, 17, 31, 32, 33, 63, 64, 65])
    } else {
        r.usize(300)
    };
    let footer = match r.below(8) {
        0 | 1 => None,
        2 | 3 => Some(String::new()),
        4 => Some(format!("{}\u{fffd}{}", ascii!(r, r.usize(4)), ascii!(r, r.usize(4)))),
        _ => Some(nonempty_text!(r, 12)),
    };
    let assertion = if proto.has_assertion() && r.chance(1, 2) { Some(nonempty_text!(r, 12)) } else { None };
    // core tokens: payload is either JSON (so that parser layers get past deserialisation when a fault
    // is wrongly accepted) or arbitrary text
    let msg = ascii!(r, mlen);
    let jp = if layer == Layer::Core && r.chance(2, 3) { Some(json!({"data": msg.clone(), "sub": "s"})) } else { None };
    let payload_len_known = match (&jp, layer) {
        (Some(j), Layer::Core) => Some(j.to_string().len()),
        (None, Layer::Core) => Some(msg.len()),
        _ => None,
    };
    let opts = IssueOpts { proto, layer, key, footer: footer.clone(), assertion: assertion.clone(), now, message: msg.clone(), json_payload: jp.clone(), extra_claims: if layer != Layer::Core { vec![ClaimSpec::Sub("s".into())] } else { vec![] } };
    let t = issue(&mut rb, &mut r, opts);
    // a second authentic token of the same protocol and key for splices
    let other = {
        let m2 = ascii!(r, mlen);
        let jp2 = jp.as_ref().map(|_| json!({"data": m2.clone(), "sub": "t"}));
        let o2 = IssueOpts { proto, layer, key, footer: if r.chance(1, 2) { footer.clone() } else { Some(nonempty_text!(r, 6)) }, assertion: assertion.clone(), now, message: m2, json_payload: jp2, extra_claims: if layer != Layer::Core { vec![ClaimSpec::Sub("t".into())] } else { vec![] } };
        issue(&mut rb, &mut r, o2)
    };
    // matching verifier(s)
    let vlayer = if layer == Layer::Core && jp.is_none() { Layer::Core } else { random_layer(&mut r) };
    let mut spec = plain_spec(&t, vlayer);
    if vlayer != Layer::Core {
        spec.validators = validators_for_data();
        spec.default_validators = vlayer == Layer::Batteries && r.chance(1, 2);
        spec.hash_seed = r.next();
    }
    let v = rb.verifier(spec);
    let deliver_at = t.issued_at + r.range(1, HOUR - 2);
    // bounds
    let body = payload_len_known.unwrap_or(mlen + 160);
    let payload_bound = proto.nonce_len() + body + proto.tail_len();
    let flen = footer.as_ref().map_or(0, |f| f.len());
    let text_bound = proto.header().len() + (payload_bound * 4 + 2) / 3 + if footer.is_some() { 1 + (flen * 4 + 2) / 3 } else { 0 };
    // families: one or two per run; the cheap complete sweeps for every protocol, bit sweeps bounded
    let nfam = 1 + r.usize(2);
    let mut outs = vec![];
    for k in 0..nfam {
        let fam = if k == 0 { (i / 8) % 11 } else { r.below(11) };
        let fam = if slow && (fam == 0 || fam == 2 || fam == 3) && payload_bound > 400 { 8 } else { fam };
        emit_family(&mut rb, &mut r, fam, t.msg, Some(other.msg), text_bound, payload_bound, flen, proto, &mut outs);
    }
    for seg in [Seg::Payload, Seg::Footer] {
        outs.push(rb.fault(t.msg, FaultKind::AlphabetSwap { seg: seg.clone() }, None));
        for n in 1..=2 {
            outs.push(rb.fault(t.msg, FaultKind::Pad { seg: seg.clone(), n }, None));
        }
    }
    if !proto.is_local() {
        // out-of-range and boundary scalars in either half of the signature (same length, canonical base64)
        for half in 0..2u8 {
            for pattern in 0..4u8 {
                outs.push(rb.fault(t.msg, FaultKind::SigFill { half, pattern }, None));
            }
        }
    }
    if let Some(f) = &footer {
        raw_footer_edits(&mut rb, t.msg, f, &mut outs);
    }
    for n in [1u8, 2, 5] {
        outs.push(rb.fault(t.msg, FaultKind::RepeatHeader { n }, None));
    }
    let twin_every = 7;
    for (k, m) in outs.iter().enumerate() {
        rb.push(Op::Deliver { msg: *m, to: v, now_ns: Ns(deliver_at), ticks: vec![], twin: vlayer != Layer::Core && k % twin_every == 0, control: None, key: None });
    }
    // the splices are also shown to the verifier that matches the OTHER token (its footer, its assertion):
    // a part of one authentic token never validates inside another
    {
        let mut so = plain_spec(&other, vlayer);
        if vlayer != Layer::Core {
            so.validators = validators_for_data();
            so.hash_seed = r.next();
        }
        let vo = rb.verifier(so);
        for part in [SplicePart::Nonce, SplicePart::Body, SplicePart::Tail, SplicePart::Footer] {
            let a = rb.fault(t.msg, FaultKind::Splice { part: part.clone() }, Some(other.msg));
            rb.deliver(a, vo, deliver_at);
            let b = rb.fault(other.msg, FaultKind::Splice { part }, Some(t.msg));
            rb.deliver(b, v, deliver_at);
            rb.deliver(b, vo, deliver_at);
        }
    }
    // heal: the unaltered token still goes through (judged under C01/C02, a probe here)
    rb.deliver(t.msg, v, deliver_at);
    Some(rb.finish())
}
