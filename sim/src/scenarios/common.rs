//! Building blocks shared by the scenario generators.

use crate::gen::*;
use crate::model::*;
use crate::prng::Rng;
use serde_json::{json, Value};

/// What the generator knows about a token it asked an issuer for.
#[derive(Clone, Debug)]
pub struct TokenDesc {
    pub msg: u32,
    pub proto: Proto,
    pub layer: Layer,
    pub key: usize,
    pub footer: Option<String>,
    pub assertion: Option<String>,
    /// simulated time at which the issuer created it (batteries layer: builder creation time)
    pub issued_at: i128,
    /// for builder layers: the builder id (so that histories can continue on it)
    pub builder: Option<u32>,
}

pub struct IssueOpts {
    pub proto: Proto,
    pub layer: Layer,
    pub key: usize,
    pub footer: Option<String>,
    pub assertion: Option<String>,
    pub now: i128,
    /// core layer: the payload text; builder layers: stored under the custom claim "data"
    pub message: String,
    /// core layer: issue this JSON object as the payload instead of `message`
    pub json_payload: Option<Value>,
    pub extra_claims: Vec<ClaimSpec>,
}

pub fn nonce_for(proto: Proto, r: &mut Rng) -> String {
    let n = match proto {
        Proto::V2L => {
            if r.chance(1, 4) {
                32
            } else {
                24
            }
        }
        _ => 32,
    };
    match r.below(10) {
        0 => "00".repeat(n),
        1 => "ff".repeat(n),
        // caller-chosen text as a nonce (printable, so that it is UTF-8 wherever it ends up)
        2 => hex::encode(printable(r, n)),
        _ => hex::encode(r.bytes(n)),
    }
}

pub fn printable(r: &mut Rng, n: usize) -> Vec<u8> {
    if n >= 12 && r.chance(1, 2) {
        // JSON text of exactly n bytes
        let fill: String = (0..n - 8).map(|_| (b'a' + r.below(26) as u8) as char).collect();
        format!("{{\"a\":\"{}\"}}", fill).into_bytes()
    } else {
        (0..n).map(|_| 0x20 + r.below(95) as u8).collect()
    }
}

/// Emits the events that make an issuer at `layer` produce one token.
pub fn issue(rb: &mut RunBuilder, r: &mut Rng, o: IssueOpts) -> TokenDesc {
    let out = rb.msg();
    let assertion = if o.proto.has_assertion() { o.assertion.clone() } else { None };
    match o.layer {
        Layer::Core => {
            let payload = match &o.json_payload {
                Some(j) => j.to_string(),
                None => o.message.clone(),
            };
            rb.push(Op::CoreIssue {
                proto: o.proto,
                key: o.key,
                nonce_hex: if o.proto.is_local() { nonce_for(o.proto, r) } else { String::new() },
                payload,
                footer: o.footer.clone(),
                assertion: assertion.clone(),
                out,
                // the core builder's setters may be called in any order
                order: if r.chance(1, 2) { 0 } else { r.below(18) as u8 },
                rebuild: r.chance(1, 6),
            });
            TokenDesc { msg: out, proto: o.proto, layer: o.layer, key: o.key, footer: o.footer, assertion, issued_at: o.now, builder: None }
        }
        Layer::Generic | Layer::Batteries => {
            let b = rb.builder_id();
            rb.push(Op::NewBuilder { b, proto: o.proto, layer: o.layer, now_ns: Ns(o.now), hash_seed: r.next() });
            if let Some(Value::Object(m)) = &o.json_payload {
                for (k, v) in m {
                    rb.push(Op::BuilderOp { b, op: BOp::SetClaim(ClaimSpec::Custom { key: k.clone(), value: v.clone() }) });
                }
            } else {
                rb.push(Op::BuilderOp { b, op: BOp::SetClaim(ClaimSpec::Custom { key: "data".into(), value: json!(o.message) }) });
            }
            for c in &o.extra_claims {
                rb.push(Op::BuilderOp { b, op: BOp::SetClaim(c.clone()) });
            }
            if let Some(f) = &o.footer {
                rb.push(Op::BuilderOp { b, op: BOp::SetFooter(f.clone()) });
            }
            if let Some(a) = &assertion {
                rb.push(Op::BuilderOp { b, op: BOp::SetAssertion(a.clone()) });
            }
            if o.layer == Layer::Generic && crate::prng::str_hash(&o.message) % 4 == 0 {
                // the payload preview called directly before the build (decided by the message, so that the
                // random stream of every other choice stays as it was)
                rb.push(Op::BuilderOp { b, op: BOp::PeekPayload });
            }
            rb.push(Op::Build { b, key: o.key, out, entropy_seed: r.next(), entropy_fail: vec![], observe: false, now_ns: Ns(SENTINEL_NOW) });
            TokenDesc { msg: out, proto: o.proto, layer: o.layer, key: o.key, footer: o.footer, assertion, issued_at: o.now, builder: Some(b) }
        }
    }
}

/// Far-away clock value served should `build` read the clock (it must not).
pub const SENTINEL_NOW: i128 = 4_000_000_000 * crate::civil::NS;

pub fn plain_spec(t: &TokenDesc, layer: Layer) -> VerifierSpec {
    VerifierSpec {
        proto: t.proto,
        layer,
        key: t.key,
        footer: t.footer.clone(),
        assertion: t.assertion.clone(),
        default_validators: false,
        expect: vec![],
        expect_via_extend: false,
        validators: vec![],
        hash_seed: 0,
    }
}

pub fn random_layer(r: &mut Rng) -> Layer {
    *r.pick(&ALL_LAYERS)
}

pub fn random_proto(r: &mut Rng) -> Proto {
    *r.pick(&ALL_PROTOS)
}

/// v3.public / v1.public are 100x slower than the rest: sample them less often in bulk scenarios.
pub fn weighted_proto(r: &mut Rng) -> Proto {
    match r.below(20) {
        0 => Proto::V3P,
        1 => Proto::V1P,
        2..=4 => Proto::V2P,
        5..=7 => Proto::V4P,
        8..=10 => Proto::V1L,
        11..=13 => Proto::V2L,
        14..=16 => Proto::V3L,
        _ => Proto::V4L,
    }
}

/// Another `build()` from the same builder object (builder layers only): the token must be as good as
/// the first one.
pub fn rebuild(rb: &mut RunBuilder, r: &mut Rng, t: &TokenDesc) -> Option<TokenDesc> {
    let b = t.builder?;
    let out = rb.msg();
    rb.push(Op::Build { b, key: t.key, out, entropy_seed: r.next(), entropy_fail: vec![], observe: false, now_ns: Ns(SENTINEL_NOW) });
    let mut n = t.clone();
    n.msg = out;
    Some(n)
}
