//! C01 / C02 — round trip, decided as the zero-fault arm of the simulation (DESIGN §1 caveat, §7).
//! Scenario `deliver-clean`.

use super::common::*;
use super::run_rng;
use crate::civil;
use crate::gen::*;
use crate::model::*;
use crate::oracle;
use crate::runner::Scenario;

const RULE: &str = "zero-fault arm (`deliver-clean`): an issuer of each protocol at each layer (core with an explicit seeded nonce; generic and batteries builders with the nonce drawn through the entropy seam and default claims through the clock seam) builds a token; the channel delivers it verbatim after a simulated delay to the matching verifier (long-lived parser plus a freshly constructed twin). Generated per run: protocol, layers, key class (random, all-zero, all-one, one-bit), message length class (0, 1, 15/16/17, 31..33, 63..65, 127..129, 255/256, 4095..4097, 65535..65537, 100000, random; plus COMPLETE sweeps of every length 0..=2175 at the core layer and 0..=1343 through the generic builder/parser for each local protocol, 0..=1343 for v2/v4.public, 0..=255 for v3.public, 0..=127 for v1.public) and alphabet (ASCII, multi-byte to 4-byte code points, NUL, '.'), footer/assertion in {none, explicit empty, UTF-8*}, batteries delivery delay in [1 ns, 1 h) with intra-parse clock ticks. Non-trivial = anything but the default short-ASCII/no-footer/no-assertion case; distinct = distinct abstract traces.";

pub static C01: Scenario = Scenario {
    property: "C01",
    level: "exploration",
    rule: RULE,
    runs: |t| match t {
        Tier::Quick => 40_000,
        Tier::Thorough => 3_000_000,
    },
    gen: |c, i| gen(c, i, true),
    judge: |run, obs| mark_nontrivial(oracle::judge("C01", run, obs), run),
    assumptions: &[
        "no fault dimension of its own: this is seeded input generation executed inside the simulator; the simulator contributes replayable builder-layer tokens (entropy and clock seams) and delivery inside the validity window",
        "batteries layer is judged only when nbf < now < exp at the verifier (C12 is silent at equality)",
    ],
    exhaustive: &["every message length 0..=2175 (core layer) and 0..=1343 (generic builder + parser) for each of v1..v4.local"],
};

pub static C02: Scenario = Scenario {
    property: "C02",
    level: "exploration",
    rule: RULE,
    runs: |t| match t {
        Tier::Quick => 20_000,
        Tier::Thorough => 1_000_000,
    },
    gen: |c, i| gen(c, i, false),
    judge: |run, obs| mark_nontrivial(oracle::judge("C02", run, obs), run),
    assumptions: &[
        "key pool: Ed25519 and P-384 pairs derived from seeds in the harness, five committed RSA-2048 pairs",
        "v1.public signatures use ring's real RSA-PSS salt (not simulated): a v1.public token's bytes differ between executions, its verdict does not",
    ],
    exhaustive: &["every message length 0..=1343 for v2.public / v4.public (core; v4 also generic), 0..=255 for v3.public, 0..=127 for v1.public"],
};

fn mark_nontrivial(mut j: oracle::Judgement, run: &Run) -> oracle::Judgement {
    // non-trivial: the run exercises a boundary class (footer, assertion, non-ASCII, long message, …)
    let nt = run.events.iter().any(|e| match e {
        Op::CoreIssue { payload, footer, assertion, .. } => footer.is_some() || assertion.is_some() || !payload.is_ascii() || payload.len() > 64 || payload.is_empty(),
        Op::BuilderOp { op: BOp::SetFooter(_) | BOp::SetAssertion(_), .. } => true,
        Op::BuilderOp { op: BOp::SetClaim(ClaimSpec::Custom { value, .. }), .. } => value.as_str().map_or(true, |s| !s.is_ascii() || s.len() > 64 || s.is_empty()),
        Op::Deliver { ticks, .. } => !ticks.is_empty(),
        _ => false,
    });
    j.nontrivial = nt;
    j
}

/// Complete sweeps of the message length (every length in a range, not a sample): core layer and the generic
/// builder/parser pair.  Run `i` covers one (protocol, layer, chunk of consecutive lengths).
fn gen_length_sweep(ctx: &GenCtx, i: u64, local: bool) -> Option<Option<Run>> {
    let prop = if local { "C01" } else { "C02" };
    // (protocol, layer, first length, chunk size, number of chunks)
    let plan: Vec<(Proto, Layer, usize, usize, u64)> = if local {
        let mut p = vec![];
        for proto in LOCALS {
            p.push((proto, Layer::Core, 0usize, 64usize, 34u64));
            p.push((proto, Layer::Generic, 0, 64, 21));
        }
        p
    } else {
        vec![
            (Proto::V2P, Layer::Core, 0, 64, 21),
            (Proto::V4P, Layer::Core, 0, 64, 21),
            (Proto::V4P, Layer::Generic, 0, 64, 21),
            (Proto::V3P, Layer::Core, 0, 32, 8),
            (Proto::V1P, Layer::Core, 0, 16, 8),
        ]
    };
    let mut k = i;
    for (proto, layer, first, chunk, nchunks) in plan {
        if k < nchunks {
            let mut r = run_rng(ctx, prop, i);
            let mut rb = RunBuilder::new(prop, "deliver-clean/length-sweep", ctx.verif_seed, i);
            let now = gen_now(&mut r);
            let key = rb.key(key_for(proto, &mut r));
            let footer = if r.chance(1, 3) { Some(nonempty_text!(r, 6)) } else { None };
            let assertion = if proto.has_assertion() && r.chance(1, 3) { Some(nonempty_text!(r, 6)) } else { None };
            let mut verifier: Option<u32> = None;
            for len in first + (k as usize) * chunk..first + (k as usize + 1) * chunk {
                let message = ascii!(r, len);
                let opts = IssueOpts { proto, layer, key, footer: footer.clone(), assertion: assertion.clone(), now, message, json_payload: None, extra_claims: vec![] };
                let t = issue(&mut rb, &mut r, opts);
                let v = match verifier {
                    Some(v) => v,
                    None => {
                        let v = rb.verifier(plain_spec(&t, layer));
                        verifier = Some(v);
                        v
                    }
                };
                rb.deliver(t.msg, v, now + 1_000_000);
            }
            return Some(Some(rb.finish()));
        }
        k -= nchunks;
    }
    None
}

/// Counter carry in the AES-CTR protocols (v1.local, v3.local): a long message whose initial counter block
/// has its low 32 bits so close to 2^32 that the increment carries into the next word inside the message.
/// The counter block is derived (v1: from HMAC-SHA384(nonce seed, message); v3: from HKDF(key, nonce)), so
/// the harness searches - with its own HMAC - a message suffix (v1) / a nonce (v3) that lands there; with
/// about 2^-18 per attempt no sampled run ever would.  If the search derivation were wrong the run would
/// merely be an ordinary long round trip.
const CARRY_RUN_FIRST: u64 = 1000;
fn gen_ctr_carry(ctx: &GenCtx, i: u64) -> Option<Run> {
    use hmac::{Hmac, Mac};
    type H = Hmac<sha2::Sha384>;
    if !(CARRY_RUN_FIRST..CARRY_RUN_FIRST + 4).contains(&i) {
        return None;
    }
    let proto = if (i - CARRY_RUN_FIRST) % 2 == 0 { Proto::V1L } else { Proto::V3L };
    if !proto.available() {
        return None;
    }
    let mut r = run_rng(ctx, "C01-carry", i);
    let key_bytes = r.bytes(32);
    let blocks: u32 = 16384; // 256 KiB
    let len = blocks as usize * 16;
    let window = blocks / 4 * 3;
    let prefix = "a".repeat(len - 16);
    let mut nonce = r.bytes(32);
    let mut message = String::new();
    let mut found = false;
    match proto {
        Proto::V1L => {
            let mut mac = H::new_from_slice(&nonce).ok()?;
            mac.update(prefix.as_bytes());
            for c in 0..4_000_000u64 {
                let suffix = format!("{:016}", c);
                let mut m = mac.clone();
                m.update(suffix.as_bytes());
                let out = m.finalize().into_bytes();
                let low = u32::from_be_bytes([out[28], out[29], out[30], out[31]]);
                if low > u32::MAX - window {
                    message = format!("{}{}", prefix, suffix);
                    found = true;
                    break;
                }
            }
        }
        _ => {
            let mut ext = H::new_from_slice(&[]).ok()?;
            ext.update(&key_bytes);
            let prk = ext.finalize().into_bytes();
            let base = H::new_from_slice(&prk).ok()?;
            for c in 0..4_000_000u64 {
                nonce[24..32].copy_from_slice(&c.to_be_bytes());
                let mut m = base.clone();
                m.update(b"paseto-encryption-key");
                m.update(&nonce);
                m.update(&[1u8]);
                let out = m.finalize().into_bytes();
                let low = u32::from_be_bytes([out[44], out[45], out[46], out[47]]);
                if low > u32::MAX - window {
                    message = format!("{}{:016}", prefix, c);
                    found = true;
                    break;
                }
            }
        }
    }
    if !found {
        return None;
    }
    let mut rb = RunBuilder::new("C01", "deliver-clean/ctr-carry", ctx.verif_seed, i);
    let now = gen_now(&mut r);
    let key = rb.key(KeySpec::Sym { hex: hex::encode(&key_bytes) });
    let footer = if i >= CARRY_RUN_FIRST + 2 { Some("kid-7".to_string()) } else { None };
    let out = rb.msg();
    rb.push(Op::CoreIssue { proto, key, nonce_hex: hex::encode(&nonce), payload: message, footer: footer.clone(), assertion: None, out, order: 0, rebuild: false });
    let t = TokenDesc { msg: out, proto, layer: Layer::Core, key, footer, assertion: None, issued_at: now, builder: None };
    let v = rb.verifier(plain_spec(&t, Layer::Core));
    rb.deliver(out, v, now + 1_000_000);
    Some(rb.finish())
}

fn gen(ctx: &GenCtx, i: u64, local: bool) -> Option<Run> {
    if local {
        if let Some(run) = gen_ctr_carry(ctx, i) {
            return Some(run);
        }
    }
    if let Some(run) = gen_length_sweep(ctx, i, local) {
        return run;
    }
    let prop = if local { "C01" } else { "C02" };
    let mut r = run_rng(ctx, prop, i);
    let protos: [Proto; 4] = if local { LOCALS } else { [Proto::V1P, Proto::V2P, Proto::V3P, Proto::V4P] };
    // systematic rotation over (protocol, layer) so every pair is visited evenly; the slow ones less
    let proto = if local {
        protos[(i % 4) as usize]
    } else {
        match i % 10 {
            0 => Proto::V3P,
            1 => Proto::V1P,
            2..=5 => Proto::V2P,
            _ => Proto::V4P,
        }
    };
    let layer = ALL_LAYERS[((i / 4) % 3) as usize];
    let mut rb = RunBuilder::new(prop, "deliver-clean", ctx.verif_seed, i);
    let now = gen_now(&mut r);
    let rb_key_spec = key_for(proto, &mut r);
    let key = rb.key(rb_key_spec.clone());
    let big_ok = layer != Layer::Core || r.chance(1, 2);
    let mlen = match r.below(24) {
        0 if big_ok => *r.pick(&[4095usize, 4096, 4097, 65_535, 65_536, 65_537, 100_000]),
        1 if big_ok => 256 + r.usize(70_000),
        _ => gen_len(&mut r, false),
    };
    let message = text!(r, mlen);
    let footer = gen_opt_text(&mut r);
    let assertion = if proto.has_assertion() { gen_opt_text(&mut r) } else { None };
    let mut extra = vec![];
    if layer != Layer::Core {
        for _ in 0..r.usize(4) {
            let c = gen_claim(&mut r, layer == Layer::Generic, now);
            // sometimes a value shaped like the claim's own {key: value} envelope
            let c = match (&c, r.below(8)) {
                (ClaimSpec::Custom { key, value }, 0) => ClaimSpec::Custom { key: key.clone(), value: serde_json::json!({ key.clone(): value.clone() }) },
                _ => c,
            };
            if !extra.iter().any(|e: &ClaimSpec| e.key() == c.key()) && c.key() != "data" {
                extra.push(c);
            }
        }
    }
    let opts = IssueOpts { proto, layer, key, footer, assertion, now, message, json_payload: None, extra_claims: extra };
    let t = issue(&mut rb, &mut r, opts);
    // matching verifier, usually at the same layer
    let vlayer = if layer != Layer::Core && r.chance(1, 8) { *r.pick(&[Layer::Generic, Layer::Batteries]) } else { layer };
    let mut spec = plain_spec(&t, vlayer);
    spec.default_validators = vlayer == Layer::Batteries && (layer == Layer::Batteries || r.chance(1, 2));
    spec.hash_seed = r.next();
    let v = rb.verifier(spec);
    // builder layers: sometimes the same builder object issues further tokens; every one must round-trip
    let mut toks = vec![t.clone()];
    if t.builder.is_some() && r.chance(1, 3) {
        for _ in 0..1 + r.usize(2) {
            if let Some(t2) = rebuild(&mut rb, &mut r, &toks[toks.len() - 1]) {
                toks.push(t2);
            }
        }
    }
    let n = toks.len().max(1 + r.usize(3));
    // one run in four: the long-lived verifier first has to refuse something (a torn copy, text of another
    // protocol, the token under another key); what it is given afterwards must still round-trip
    let refuse_first = r.chance(1, 4);
    for k in 0..n {
        if refuse_first && k < 2 {
            match r.below(3) {
                0 => {
                    let m = rb.fault(toks[0].msg, FaultKind::Truncate { n: 12 + r.usize(30) }, None);
                    rb.deliver(m, v, toks[0].issued_at + 1);
                }
                1 => {
                    let m = rb.msg();
                    rb.push(Op::Literal { out: m, text: format!("{}AAAA", proto.header()) });
                    rb.deliver(m, v, toks[0].issued_at + 1);
                }
                _ => {
                    let k2 = rb.key(other_key_for(proto, &rb_key_spec, &mut r));
                    rb.push(Op::Deliver { msg: toks[0].msg, to: v, now_ns: Ns(toks[0].issued_at + 1), ticks: vec![], twin: false, control: None, key: Some(k2) });
                }
            }
        }
        let t = &toks[k % toks.len()];
        // delivery delay: inside the default one-hour lifetime (strictly), sometimes at/over the edges
        let d = match r.below(12) {
            0 => 1,
            1 => HOUR - 1,
            2 if k > 0 => 0,
            3 if k > 0 => HOUR + r.range(0, DAY),
            _ => r.range(1, HOUR - 1),
        };
        let tick = match r.below(6) {
            0 => vec![Ns(1)],
            1 => vec![Ns(civil::NS)],
            2 => vec![Ns(r.range(0, 1_000_000))],
            _ => vec![],
        };
        // keep both reads inside (nbf, exp) for the judged deliveries
        let tickv = tick.first().map_or(0, |x| x.0);
        let d = if d > 0 && d < HOUR && d + tickv >= HOUR { HOUR - 1 - tickv } else { d };
        rb.push(Op::Deliver { msg: t.msg, to: v, now_ns: Ns(t.issued_at + d), ticks: tick, twin: k == 0, control: None, key: None });
    }
    Some(rb.finish())
}
