//! C05 — the footer is authenticated and must match the caller's expected footer.
//! Scenarios `misroute-footer` + footer edits in transit.
//! C06 — implicit assertions bind the token without appearing in it.  Scenario `misroute-assertion`.

use super::common::*;
use super::run_rng;
use crate::gen::*;
use crate::model::*;
use crate::oracle;
use crate::prng::Rng;
use crate::runner::Scenario;
use serde_json::json;

pub static C05: Scenario = Scenario {
    property: "C05",
    level: "exploration",
    rule: "misroute-footer: a token built with footer F in {none, explicit empty, UTF-8*} (any protocol, any issuing layer) is delivered to verifiers of all three layers that expect F' drawn from {F, none, \"\", every proper prefix of F (<= 64), F+x, case-flipped F, F with the last byte changed, F+NUL, unrelated text}; separately the footer segment is edited / dropped / added / bit-flipped in transit while the verifier expects F. Structural clause on every issued token: the 4th segment is exactly base64url_nopad(F) (absent without footer). none == \"\" is judged in the accept direction relative to an identical-form control verifier. Non-trivial = at least one mismatching expectation or footer fault; distinct = distinct abstract traces.",
    runs: |t| match t {
        Tier::Quick => 8_000,
        Tier::Thorough => 400_000,
    },
    gen: gen_c05,
    judge: |run, obs| oracle::judge("C05", run, obs),
    assumptions: &["absent and explicitly empty footers are equivalent, as the property states"],
    exhaustive: &[],
};

pub static C06: Scenario = Scenario {
    property: "C06",
    level: "exploration",
    rule: "misroute-assertion (v3/v4, local and public, all layers): a token built with implicit assertion A is delivered to verifiers expecting A' in {A, none, \"\", proper prefixes, extensions, case flips, unrelated}; (footer, assertion) pairs with the same concatenation but a different split are presented (PAE length prefixes); non-storage: the same core issue event (same key, nonce, message, footer) is replayed with assertions of length 0, 1, 16, 1000 and must give equal token lengths, and assertions of >= 24 random alphanumerics (and their base64) must not occur in the token or its decoded segments. Non-trivial = at least one mismatching assertion or a non-storage group; distinct = distinct abstract traces.",
    runs: |t| match t {
        Tier::Quick => 8_000,
        Tier::Thorough => 400_000,
    },
    gen: gen_c06,
    judge: |run, obs| oracle::judge("C06", run, obs),
    assumptions: &["absent and explicitly empty assertions are equivalent, as the property states", "assertions shorter than 24 alphanumerics are exempt from the occurrence clause (accidental occurrence would not be negligible)"],
    exhaustive: &[],
};

/// expectation variants around `f`
pub fn variants(r: &mut Rng, f: &Option<String>) -> Vec<Option<String>> {
    let mut v: Vec<Option<String>> = vec![None, Some(String::new()), f.clone()];
    if let Some(s) = f {
        let chars: Vec<char> = s.chars().collect();
        for n in 1..chars.len().min(64) {
            v.push(Some(chars[..n].iter().collect()));
        }
        v.push(Some(format!("{}x", s)));
        v.push(Some(format!("{}\0", s)));
        // other spellings of the same number / identifier
        v.push(Some(format!("0{}", s)));
        v.push(Some(format!("+{}", s)));
        v.push(Some(format!("{}.0", s)));
        v.push(Some(format!(" {}", s)));
        // canonically equivalent Unicode in another normalisation form is a different byte string
        if s.contains('é') {
            v.push(Some(s.replace('é', "e\u{301}")));
        } else {
            v.push(Some(format!("{}\u{301}", s)));
        }
        v.push(Some(s.replace('a', "\u{430}")).filter(|x| x != s)); // Latin a -> Cyrillic а
        v.push(Some(format!("{}\n", s)));
        v.push(Some(format!("{} ", s)));
        v.push(Some(format!("\t{}", s)));
        v.push(Some(format!("{}\u{a0}", s)));
        let flipped: String = s.chars().map(|c| if c.is_ascii_lowercase() { c.to_ascii_uppercase() } else { c.to_ascii_lowercase() }).collect();
        v.push(Some(flipped));
        if !s.is_empty() {
            // last byte changed (ASCII only, to stay valid UTF-8)
            let mut b = s.clone();
            if let Some(c) = b.pop() {
                b.push(if c.is_ascii() { ((c as u8) ^ 1) as char } else { 'q' });
                v.push(Some(b));
            }
        }
    } else {
        v.push(Some("x".into()));
    }
    // whitespace-only values are not "absent"
    v.push(Some(" ".into()));
    v.push(Some("\t".into()));
    v.push(Some("\n".into()));
    v.push(Some(nonempty_text!(r, 10)));
    v
}

fn gen_c05(ctx: &GenCtx, i: u64) -> Option<Run> {
    let mut r = run_rng(ctx, "C05", i);
    let proto = if i < 8 { ALL_PROTOS[i as usize] } else { weighted_proto(&mut r) };
    let layer = random_layer(&mut r);
    let mut rb = RunBuilder::new("C05", "misroute-footer", ctx.verif_seed, i);
    let now = gen_now(&mut r);
    let key = rb.key(key_for(proto, &mut r));
    let footer = match i % 4 {
        0 => None,
        1 => Some(String::new()),
        2 if r.chance(1, 4) => Some(format!("{}\u{fffd}{}", ascii!(r, r.usize(6)), nonempty_text!(r, 6))),
        // sometimes a footer of several kilobytes (or beyond 64 KiB)
        3 if r.chance(1, 12) && !matches!(proto, Proto::V3P | Proto::V1P) => Some(ascii!(r, *r.pick(&[4095usize, 4096, 4097, 65_535, 65_536, 70_001]))),
        _ => Some(if r.chance(1, 2) { ascii!(r, 1 + r.usize(24)) } else { nonempty_text!(r, 24) }),
    };
    let assertion = if proto.has_assertion() { gen_opt_text(&mut r).map(|f| f.chars().take(10).collect::<String>()) } else { None };
    let raw = layer == Layer::Core && r.chance(1, 3);
    let big = !matches!(proto, Proto::V3P | Proto::V1P) && r.chance(1, 10);
    let msg = if raw { ascii!(r, *r.pick(&[0usize, 0, 1, 2, 16])) } else if big { ascii!(r, *r.pick(&[4000usize, 4096, 5000, 8192, 9000, 70_000])) } else { ascii!(r, r.usize(40)) };
    // one run in eight (raw core message): the footer is the beginning of the message itself, cut at a
    // base64 quantum - so the footer's encoding also occurs inside the token body
    let (footer, msg) = if raw && r.chance(1, 2) {
        let m = ascii!(r, 12 + r.usize(30));
        let k = 3 * (1 + r.usize(3));
        (Some(m[..k].to_string()), m)
    } else {
        (footer, msg)
    };
    let opts = IssueOpts { proto, layer, key, footer: footer.clone(), assertion, now, message: msg.clone(), json_payload: if raw { None } else { Some(json!({"data": msg})) }, extra_claims: vec![] };
    let mut t = issue(&mut rb, &mut r, opts);
    // builder layers: sometimes it is the 2nd or 3rd token of the same builder that travels
    if t.builder.is_some() && r.chance(1, 3) {
        for _ in 0..1 + r.usize(2) {
            if let Some(t2) = rebuild(&mut rb, &mut r, &t) {
                t = t2;
            }
        }
    }
    let at = t.issued_at + r.range(1, HOUR - 2);
    let slow = matches!(proto, Proto::V3P);
    let mut vs = variants(&mut r, &footer);
    if slow {
        vs.truncate(8);
    }
    // a live parser whose expected footer is changed between parses: F -> other -> "" -> F
    {
        let vlayer = if raw { Layer::Core } else { random_layer(&mut r) };
        let mut spec = plain_spec(&t, vlayer);
        spec.default_validators = vlayer == Layer::Batteries;
        let v = rb.verifier(spec);
        rb.deliver(t.msg, v, at);
        // (and once more: what a parser has seen must not change what it expects)
        rb.deliver(t.msg, v, at);
        // "" directly after the matching footer, after another one, and back again
        let fm = footer.clone().unwrap_or_default();
        let seq: Vec<String> = vec![String::new(), nonempty_text!(r, 6), String::new(), fm.clone(), String::new(), fm, "zz".into(), String::new()];
        let control = plain_spec(&t, vlayer);
        let mut steps: Vec<VOp> = seq.into_iter().map(VOp::SetFooter).collect();
        // the same backing buffer, re-sliced: F+"xyz" -> F (prefix) -> proper prefix -> F -> empty slice -> F+"xyz"
        let fm = footer.clone().unwrap_or_default();
        steps.push(VOp::SetFooter(format!("{}xyz", fm)));
        steps.push(VOp::SetFooterPrefixOfCurrent(fm.len()));
        if fm.len() > 1 && fm.is_char_boundary(fm.len() / 2) {
            steps.push(VOp::SetFooterPrefixOfCurrent(fm.len() / 2));
            steps.push(VOp::SetFooterPrefixOfCurrent(fm.len()));
        }
        steps.push(VOp::SetFooterPrefixOfCurrent(0));
        steps.push(VOp::SetFooterPrefixOfCurrent(fm.len()));
        steps.push(VOp::SetFooterPrefixOfCurrent(fm.len() + 3));
        steps.push(VOp::SetFooterPrefixOfCurrent(fm.len()));
        for op in steps {
            rb.push(Op::Reconfigure { v, op });
            rb.push(Op::Deliver { msg: t.msg, to: v, now_ns: Ns(at), ticks: vec![], twin: false, control: Some(Box::new(VerifierSpec { default_validators: vlayer == Layer::Batteries, ..control.clone() })), key: None });
        }
    }
    for (n, fv) in vs.into_iter().enumerate() {
        let vlayer = if raw { Layer::Core } else { ALL_LAYERS[(n + i as usize) % 3] };
        let mut spec = plain_spec(&t, vlayer);
        spec.footer = fv.clone();
        spec.default_validators = vlayer == Layer::Batteries;
        spec.hash_seed = r.next();
        // control for the none == "" clause: the identical form the issuer used
        let mut control = plain_spec(&t, vlayer);
        control.default_validators = spec.default_validators;
        let v = rb.verifier(spec);
        rb.push(Op::Deliver { msg: t.msg, to: v, now_ns: Ns(at), ticks: vec![], twin: false, control: Some(Box::new(control)), key: None });
    }
    // footer edits in transit, verifier expects F
    let vlayer = if raw { Layer::Core } else { random_layer(&mut r) };
    let mut spec = plain_spec(&t, vlayer);
    spec.default_validators = vlayer == Layer::Batteries;
    let v = rb.verifier(spec);
    let flen = footer.as_ref().map_or(0, |f| f.len());
    let mut outs = vec![];
    super::c03::emit_family(&mut rb, &mut r, 9, t.msg, None, 0, 0, flen, proto, &mut outs);
    if !slow {
        super::c03::emit_family(&mut rb, &mut r, 1, t.msg, None, 0, 0, flen.min(16), proto, &mut outs);
    }
    for k in [-2, -1, 1, 2] {
        outs.push(rb.fault(t.msg, FaultKind::ShiftPayloadFooter { k }, None));
    }
    if let Some(f) = &footer {
        // the footer segment replaced by every proper prefix and by extensions of the real footer
        let chars: Vec<char> = f.chars().collect();
        for n in 0..chars.len().min(if slow { 4 } else { 32 }) {
            outs.push(rb.fault(t.msg, FaultKind::FooterReplace { text: chars[..n].iter().collect() }, None));
        }
        for ext in ["x", "\0", " ", "AAAA"] {
            outs.push(rb.fault(t.msg, FaultKind::FooterReplace { text: format!("{}{}", f, ext) }, None));
        }
    }
    if let Some(f) = &footer {
        super::c03::raw_footer_edits(&mut rb, t.msg, f, &mut outs);
    }
    // the footer *segment text* cut or extended by single base64 symbols
    for text in ["A", "AA", "_", "=", ".", ".x", "..", ".Zm9v", "..junk", ".QUJD.QUJD"] {
        outs.push(rb.fault(t.msg, FaultKind::Extend { text: text.to_string() }, None));
    }
    for s in [Seg::Footer] {
        outs.push(rb.fault(t.msg, FaultKind::Pad { seg: s.clone(), n: 1 }, None));
        outs.push(rb.fault(t.msg, FaultKind::Pad { seg: s.clone(), n: 2 }, None));
        outs.push(rb.fault(t.msg, FaultKind::AlphabetSwap { seg: s.clone() }, None));
        for bits in [1u8, 2, 3, 8] {
            outs.push(rb.fault(t.msg, FaultKind::TrailingBits { seg: s.clone(), bits }, None));
        }
    }
    for m in outs {
        rb.deliver(m, v, at);
    }
    Some(rb.finish())
}

fn gen_c06(ctx: &GenCtx, i: u64) -> Option<Run> {
    let mut r = run_rng(ctx, "C06", i);
    const P: [Proto; 4] = [Proto::V3L, Proto::V4L, Proto::V3P, Proto::V4P];
    let proto = if i < 4 {
        P[i as usize]
    } else {
        match r.below(16) {
            0 => Proto::V3P,
            1..=5 => Proto::V3L,
            6..=10 => Proto::V4L,
            _ => Proto::V4P,
        }
    };
    let mut rb = RunBuilder::new("C06", "misroute-assertion", ctx.verif_seed, i);
    let now = gen_now(&mut r);
    let key = rb.key(key_for(proto, &mut r));
    let slow = proto == Proto::V3P;
    match i % 3 {
        // ---- mismatching expectations
        0 | 1 => {
            let layer = random_layer(&mut r);
            let assertion = match (i / 3) % 4 {
                0 => None,
                1 => Some(String::new()),
                2 if r.chance(1, 3) => Some((*r.pick(&["7", "42", "1000", "0", "18446744073709551615", "007", "1e3", "-1"])).to_string()),
                _ => Some(if r.chance(1, 2) { ascii!(r, 1 + r.usize(24)) } else { nonempty_text!(r, 24) }),
            };
            let mut footer = gen_opt_text(&mut r).map(|f| f.chars().take(10).collect::<String>());
            if let (Some(a), true) = (&assertion, r.chance(1, 5)) {
                // the footer repeats (or contains) the assertion: still two separate inputs
                if !a.is_empty() {
                    footer = Some(match r.below(4) {
                        0 => a.clone(),
                        1 => format!("kid-{}", a),
                        2 => format!("{}-1", a),
                        _ => serde_json::json!({"kid": "k1", "tenant": a}).to_string(),
                    });
                }
            }
            let raw = layer == Layer::Core && r.chance(1, 3);
            let big = !slow && r.chance(1, 10);
            let msg = if raw { ascii!(r, *r.pick(&[0usize, 0, 1, 2, 16])) } else if big { ascii!(r, *r.pick(&[4000usize, 4096, 5000, 8192, 9000, 70_000])) } else { ascii!(r, r.usize(40)) };
            let opts = IssueOpts { proto, layer, key, footer: footer.clone(), assertion: assertion.clone(), now, message: msg.clone(), json_payload: if raw { None } else { Some(json!({"data": msg})) }, extra_claims: vec![] };
            let mut t = issue(&mut rb, &mut r, opts);
            if t.builder.is_some() && r.chance(1, 3) {
                for _ in 0..1 + r.usize(2) {
                    if let Some(t2) = rebuild(&mut rb, &mut r, &t) {
                        t = t2;
                    }
                }
            }
            let at = t.issued_at + r.range(1, HOUR - 2);
            let mut vs = variants(&mut r, &assertion);
            if slow {
                vs.truncate(8);
            }
            // a live parser whose asserted value is changed between parses: A -> other -> "" -> A
            {
                let vlayer = if raw { Layer::Core } else { random_layer(&mut r) };
                let mut spec = plain_spec(&t, vlayer);
                spec.default_validators = vlayer == Layer::Batteries;
                let v = rb.verifier(spec);
                rb.deliver(t.msg, v, at);
                let am = assertion.clone().unwrap_or_default();
                let seq: Vec<String> = vec![String::new(), nonempty_text!(r, 6), String::new(), am.clone(), String::new(), am, "zz".into(), String::new()];
                let control = plain_spec(&t, vlayer);
                let mut steps: Vec<VOp> = seq.into_iter().map(VOp::SetAssertion).collect();
                // the same backing buffer, re-sliced: A+"xyz" -> A (prefix) -> proper prefix -> A -> empty slice -> A -> A+"xyz" -> A
                let am = assertion.clone().unwrap_or_default();
                steps.push(VOp::SetAssertion(format!("{}xyz", am)));
                steps.push(VOp::SetAssertionPrefixOfCurrent(am.len()));
                if am.len() > 1 && am.is_char_boundary(am.len() / 2) {
                    steps.push(VOp::SetAssertionPrefixOfCurrent(am.len() / 2));
                    steps.push(VOp::SetAssertionPrefixOfCurrent(am.len()));
                }
                steps.push(VOp::SetAssertionPrefixOfCurrent(0));
                steps.push(VOp::SetAssertionPrefixOfCurrent(am.len()));
                steps.push(VOp::SetAssertionPrefixOfCurrent(am.len() + 3));
                steps.push(VOp::SetAssertionPrefixOfCurrent(am.len()));
                for op in steps {
                    rb.push(Op::Reconfigure { v, op });
                    rb.push(Op::Deliver { msg: t.msg, to: v, now_ns: Ns(at), ticks: vec![], twin: false, control: Some(Box::new(VerifierSpec { default_validators: vlayer == Layer::Batteries, ..control.clone() })), key: None });
                }
            }
            for (n, av) in vs.into_iter().enumerate() {
                let vlayer = if raw { Layer::Core } else { ALL_LAYERS[(n + i as usize) % 3] };
                let mut spec = plain_spec(&t, vlayer);
                spec.assertion = av;
                spec.default_validators = vlayer == Layer::Batteries;
                let mut control = plain_spec(&t, vlayer);
                control.default_validators = spec.default_validators;
                let v = rb.verifier(spec);
                rb.push(Op::Deliver { msg: t.msg, to: v, now_ns: Ns(at), ticks: vec![], twin: false, control: Some(Box::new(control)), key: None });
            }
            // the value moves between the two slots: a token with footer X and no assertion has its footer
            // segment dropped and is shown to a verifier with no footer and assertion X; a token with assertion
            // X and no footer gets X appended as a footer segment and is shown to a verifier with footer X and
            // no assertion
            {
                let f_nonempty = footer.as_deref().map_or(false, |f| !f.is_empty());
                let a_nonempty = assertion.as_deref().map_or(false, |a| !a.is_empty());
                let swaps: Vec<(u32, Option<String>, Option<String>)> = match (f_nonempty, a_nonempty) {
                    (true, false) => vec![(rb.fault(t.msg, FaultKind::DropFooter, None), None, footer.clone())],
                    (false, true) => vec![(rb.fault(t.msg, FaultKind::AddFooter { text: assertion.clone().unwrap() }, None), assertion.clone(), None)],
                    (true, true) => vec![
                        (rb.fault(t.msg, FaultKind::FooterReplace { text: assertion.clone().unwrap() }, None), assertion.clone(), footer.clone()),
                        (rb.fault(t.msg, FaultKind::DropFooter, None), None, Some(format!("{}{}", footer.clone().unwrap(), assertion.clone().unwrap()))),
                    ],
                    _ => vec![],
                };
                for (m, vf, va) in swaps {
                    for vlayer in if raw { vec![Layer::Core] } else { ALL_LAYERS.to_vec() } {
                        let mut spec = plain_spec(&t, vlayer);
                        spec.footer = vf.clone();
                        spec.assertion = va.clone();
                        spec.default_validators = vlayer == Layer::Batteries;
                        let v = rb.verifier(spec);
                        rb.deliver(m, v, at);
                    }
                }
            }
            // re-split pairs: (footer, assertion) with the same concatenation
            let cat = format!("{}{}", footer.clone().unwrap_or_default(), assertion.clone().unwrap_or_default());
            let chars: Vec<char> = cat.chars().collect();
            for cut in 0..=chars.len().min(if slow { 4 } else { 24 }) {
                let f2: String = chars[..cut].iter().collect();
                let a2: String = chars[cut..].iter().collect();
                let vlayer = if raw { Layer::Core } else { ALL_LAYERS[(cut + i as usize) % 3] };
                let mut spec = plain_spec(&t, vlayer);
                spec.footer = if f2.is_empty() && r.chance(1, 2) { None } else { Some(f2) };
                spec.assertion = if a2.is_empty() && r.chance(1, 2) { None } else { Some(a2) };
                spec.default_validators = vlayer == Layer::Batteries;
                let v = rb.verifier(spec);
                rb.deliver(t.msg, v, at);
            }
        }
        // ---- non-storage
        _ if (i / 3) % 4 == 3 => {
            // crafted re-splits against length-prefix aliasing in the pre-authentication encoding: the
            // block that moves from the assertion into the footer is LE64(len(tail)) repeated m times, so
            // that a length prefix which aliases n and n + 8m makes both splits encode identically
            let layer = Layer::Core;
            let tail = if r.chance(1, 2) { "admin".to_string() } else { alnum!(r, 1 + r.usize(9)) };
            let m = *r.pick(&[1usize, 2, 4, 16, 32, 64]);
            let mut le = vec![0u8; 8];
            le[0] = tail.len() as u8;
            let block: String = String::from_utf8(le.repeat(m)).unwrap();
            let f0 = if r.chance(1, 2) { "kid:1".to_string() } else { alnum!(r, tail.len()) };
            let (tf, ta) = (Some(f0.clone()), Some(format!("{}{}", block, tail)));
            let msg = ascii!(r, r.usize(30));
            let opts = IssueOpts { proto, layer, key, footer: tf, assertion: ta, now, message: msg, json_payload: None, extra_claims: vec![] };
            let t = issue(&mut rb, &mut r, opts);
            // the attacker moves the block into the footer segment and presents the short assertion
            let forged = rb.fault(t.msg, FaultKind::FooterReplace { text: format!("{}{}", f0, block) }, None);
            for vlayer in ALL_LAYERS {
                let spec = VerifierSpec { proto, layer: vlayer, key, footer: Some(format!("{}{}", f0, block)), assertion: Some(tail.clone()), default_validators: false, expect: vec![], expect_via_extend: false, validators: vec![], hash_seed: 0 };
                let v = rb.verifier(spec);
                rb.deliver(forged, v, now + 1000);
                rb.deliver(t.msg, v, now + 1000);
            }
            // and the mirror image: block moves from the footer into the assertion
            let (tf2, ta2) = (Some(format!("{}{}", f0, block)), Some(tail.clone()));
            let opts2 = IssueOpts { proto, layer, key, footer: tf2, assertion: ta2, now, message: "m".into(), json_payload: None, extra_claims: vec![] };
            let t2 = issue(&mut rb, &mut r, opts2);
            let forged2 = rb.fault(t2.msg, FaultKind::FooterReplace { text: f0.clone() }, None);
            let spec = VerifierSpec { proto, layer: Layer::Core, key, footer: Some(f0.clone()), assertion: Some(format!("{}{}", block, tail)), default_validators: false, expect: vec![], expect_via_extend: false, validators: vec![], hash_seed: 0 };
            let v = rb.verifier(spec);
            rb.deliver(forged2, v, now + 1000);
        }
        _ => {
            let footer = gen_opt_text(&mut r).map(|f| f.chars().take(10).collect::<String>());
            let msg = ascii!(r, r.usize(80));
            let nonce = if proto.is_local() { hex::encode(r.bytes(32)) } else { String::new() };
            let lens: &[usize] = if slow { &[0, 1, 1000] } else { &[0, 1, 16, 24, 255, 1000, 65_536] };
            for (n, l) in lens.iter().enumerate() {
                let a = if *l == 0 { if n % 2 == 0 { None } else { Some(String::new()) } } else { Some(alnum!(r, *l)) };
                let out = rb.msg();
                rb.push(Op::CoreIssue { proto, key, nonce_hex: nonce.clone(), payload: msg.clone(), footer: footer.clone(), assertion: a.clone(), out, order: 0, rebuild: false });
                // and it verifies with the same assertion
                let v = rb.verifier(VerifierSpec { proto, layer: Layer::Core, key, footer: footer.clone(), assertion: a, default_validators: false, expect: vec![], expect_via_extend: false, validators: vec![], hash_seed: 0 });
                rb.deliver(out, v, now);
            }
            // builder layers: occurrence clause with a long alphanumeric assertion
            let layer = *r.pick(&[Layer::Generic, Layer::Batteries]);
            let a = alnum!(r, 24 + r.usize(40));
            let opts = IssueOpts { proto, layer, key, footer, assertion: Some(a), now, message: msg.clone(), json_payload: None, extra_claims: vec![] };
            let t = issue(&mut rb, &mut r, opts);
            let mut spec = plain_spec(&t, layer);
            spec.default_validators = layer == Layer::Batteries;
            let v = rb.verifier(spec);
            rb.deliver(t.msg, v, t.issued_at + 1000);
        }
    }
    Some(rb.finish())
}
