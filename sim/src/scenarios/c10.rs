//! C10 — high-level builders never reuse a nonce.  Scenario `issuer-history` with three arms:
//! simulate (entropy served and logged by the simulator, plus re-execution with the same and with a
//! different stream), entropy-failure faults, observe (real OS entropy, recorded only).

use super::common::*;
use super::run_rng;
use crate::faults::Tok;
use crate::gen::*;
use crate::model::*;
use crate::oracle::{self, add_clause, add_probe, Judgement};
use crate::runner::Scenario;
use crate::world;

pub static SCENARIO: Scenario = Scenario {
    property: "C10",
    level: "exploration",
    rule: "issuer-history on GenericBuilder / PasetoBuilder <V, Local>, v1..v4, clock frozen so that nothing but entropy can differ between builds: histories of N builds under one key (N = 16384 per protocol/layer in quick, 100000 in thorough; plus many short histories of random length) with identical or varying claims/footer/assertion, fresh or reused builder objects. Arm 1 (simulate): nonce fields and tokens pairwise distinct, no constant byte position, every bit position's one-count within N/2 +- 10*sqrt(N)/2 (false-alarm < 2^-64), for N >= 16384 all 256 byte values occur at every nonce position (false-alarm < 2^-64), every build draws entropy; the identical event list re-executed with the SAME entropy stream reproduces every token byte for byte, and with a DIFFERENT stream changes every nonce. Arm 2 (fault): the entropy hook fails chosen draws - that build returns Err and emits no token, later builds succeed and stay fresh. Arm 3 (observe): real SystemRandom passes through the hook unmodified, same distinctness/statistics clauses; 4*10^5 direct draws of the builders' nonce source; 8 caller threads issuing and drawing at once (interleaving not controlled: notices state shared between caller threads only). Non-trivial = history with >= 2 builds under one key or an entropy fault; distinct = distinct abstract traces.",
    runs: |t| match t {
        Tier::Quick => 16 + 5_000,
        Tier::Thorough => 16 + 200_000,
    },
    gen,
    judge,
    assumptions: &[
        "the property presupposes a working RNG: a 'stuck' entropy source that repeats draws is deliberately not injected",
        "observe-arm tokens are not replayable (uncontrolled OS entropy); their verdict is stable up to the 2^-64 statistical threshold",
        "'nonce equals the draw' is deliberately not required (a design that hashes its entropy also satisfies the property)",
    ],
    exhaustive: &[],
};

fn nonce_of(proto: Proto, token: &str) -> Option<Vec<u8>> {
    let t = Tok::parse(token)?;
    let n = proto.nonce_len();
    if t.payload.len() < n {
        return None;
    }
    Some(t.payload[..n].to_vec())
}

fn judge(run: &Run, obs: &[Obs]) -> Judgement {
    let mut j = oracle::judge("C10", run, obs);
    let observe = run.events.iter().any(|e| matches!(e, Op::Build { observe: true, .. } | Op::DrawKeys { .. } | Op::ScriptEntropy { .. } | Op::ConcurrentIssuers { .. }));
    if observe {
        add_probe(&mut j, "observe_arm_history");
        return j;
    }
    // protocol per builder
    let mut proto_of = std::collections::BTreeMap::new();
    for e in &run.events {
        if let Op::NewBuilder { b, proto, .. } = e {
            proto_of.insert(*b, *proto);
        }
    }
    // --- same stream again: byte-for-byte identical
    let obs2 = world::execute(run);
    // --- different stream: every nonce changes
    let mut run3 = run.clone();
    for e in run3.events.iter_mut() {
        if let Op::Build { entropy_seed, .. } = e {
            *entropy_seed ^= 0x5eed_5eed_5eed_5eed;
        }
    }
    let obs3 = world::execute(&run3);
    let mut same_ok = true;
    let mut same_at = 0usize;
    let mut diff_ok = true;
    let mut diff_at = 0usize;
    let mut n = 0u64;
    let mut pname = String::new();
    for (idx, e) in run.events.iter().enumerate() {
        if let Op::Build { b, .. } = e {
            let proto = match proto_of.get(b) {
                Some(p) => *p,
                None => continue,
            };
            if !proto.is_local() {
                continue;
            }
            let t1 = match obs.get(idx) {
                Some(Obs::Build { result: Outcome::OkStr(t), .. }) => t,
                _ => continue,
            };
            n += 1;
            pname = proto.name().to_string();
            match obs2.get(idx) {
                Some(Obs::Build { result: Outcome::OkStr(t2), .. }) if t2 == t1 => {}
                _ => {
                    if same_ok {
                        same_at = idx;
                    }
                    same_ok = false;
                }
            }
            if let Some(Obs::Build { result: Outcome::OkStr(t3), .. }) = obs3.get(idx) {
                if nonce_of(proto, t1) == nonce_of(proto, t3) {
                    if diff_ok {
                        diff_at = idx;
                    }
                    diff_ok = false;
                }
            }
        }
    }
    if n > 0 {
        add_clause(&mut j, "C10", "same_entropy_stream_reproduces_every_token", same_at, same_ok, "byte-identical tokens when the identical event list is re-executed with the same entropy stream", "a token differs although clock, claims and entropy are identical".into(), &[("proto", pname.clone())]);
        add_clause(&mut j, "C10", "different_entropy_stream_changes_every_nonce", diff_at, diff_ok, "every nonce differs when only the entropy stream differs", "a nonce did not change with the entropy".into(), &[("proto", pname)]);
    }
    j
}

fn gen(ctx: &GenCtx, i: u64) -> Option<Run> {
    let mut r = run_rng(ctx, "C10", i);
    let mut rb = RunBuilder::new("C10", "issuer-history", ctx.verif_seed, i);
    let now = gen_now(&mut r);
    let long_n = if ctx.tier == Tier::Quick { 16_384 } else { 100_000 };
    if i == 17 || i == 18 {
        // observe arm, concurrent callers (not schedule-controlled, see Op::ConcurrentIssuers)
        let (proto, layer) = if i == 17 { (Proto::V4L, Layer::Generic) } else { (Proto::V2L, Layer::Batteries) };
        let key = rb.key(key_for(proto, &mut r));
        let big = ctx.tier != Tier::Quick;
        rb.push(Op::ConcurrentIssuers { proto, layer, key, threads: 8, builds_each: if big { 20_000 } else { 3_000 }, draws_each: if big { 200_000 } else { 25_000 } });
        return Some(rb.finish());
    }
    if i == 16 {
        // observe arm, entropy source itself: enough direct draws of the builders' nonce material that a source
        // with no more than ~36 bits of entropy repeats with overwhelming probability
        rb.push(Op::DrawKeys { n: if ctx.tier == Tier::Quick { 400_000 } else { 4_000_000 } });
        return Some(rb.finish());
    }
    let (proto, layer, n, observe, faulty) = if i < 16 {
        let proto = LOCALS[(i % 4) as usize];
        let layer = if (i / 4) % 2 == 0 { Layer::Generic } else { Layer::Batteries };
        (proto, layer, long_n, i >= 8, false)
    } else {
        let proto = *r.pick(&LOCALS);
        let layer = *r.pick(&[Layer::Generic, Layer::Batteries]);
        (proto, layer, 2 + r.usize(60), r.chance(1, 6), r.chance(1, 2))
    };
    let key = rb.key(key_for(proto, &mut r));
    let vary = i >= 16 && r.chance(1, 2);
    let reuse = r.chance(1, 2);
    let with_ids = if i < 16 { i % 2 == 1 } else { r.chance(1, 2) };
    let footer = if r.chance(1, 3) { Some(nonempty_text!(r, 8)) } else { None };
    let assertion = if proto.has_assertion() && r.chance(1, 3) { Some(nonempty_text!(r, 8)) } else { None };
    let mut cur: Option<u32> = None;
    for k in 0..n {
        let b = match (reuse, cur) {
            (true, Some(b)) if !r.chance(1, 16) => b,
            _ => {
                let b = rb.builder_id();
                rb.push(Op::NewBuilder { b, proto, layer, now_ns: Ns(now), hash_seed: r.next() });
                let v = if vary { format!("m{}", r.below(1000)) } else { "same".to_string() };
                rb.push(Op::BuilderOp { b, op: BOp::SetClaim(ClaimSpec::Custom { key: "data".into(), value: serde_json::json!(v) }) });
                if with_ids {
                    // registered identifiers that repeat across builds (a session id, a fixed subject)
                    rb.push(Op::BuilderOp { b, op: BOp::SetClaim(ClaimSpec::Jti("session-1".into())) });
                    rb.push(Op::BuilderOp { b, op: BOp::SetClaim(ClaimSpec::Sub("alice".into())) });
                    rb.push(Op::BuilderOp { b, op: BOp::SetClaim(ClaimSpec::Iss("issuer".into())) });
                }
                if let Some(f) = &footer {
                    rb.push(Op::BuilderOp { b, op: BOp::SetFooter(f.clone()) });
                }
                if let Some(a) = &assertion {
                    rb.push(Op::BuilderOp { b, op: BOp::SetAssertion(a.clone()) });
                }
                cur = Some(b);
                b
            }
        };
        let fail = faulty && r.chance(1, 8);
        let out = rb.msg();
        rb.push(Op::Build { b, key, out, entropy_seed: r.next(), entropy_fail: if fail { vec![0] } else { vec![] }, observe, now_ns: Ns(SENTINEL_NOW) });
        let _ = k;
    }
    // heal: one more fresh build, delivered cleanly
    let opts = IssueOpts { proto, layer, key, footer, assertion, now, message: "heal".into(), json_payload: None, extra_claims: vec![] };
    let t = issue(&mut rb, &mut r, opts);
    let mut spec = plain_spec(&t, layer);
    spec.default_validators = layer == Layer::Batteries;
    let v = rb.verifier(spec);
    rb.deliver(t.msg, v, now + 1_000_000);
    Some(rb.finish())
}
