//! C04 — a token is accepted only under the key it was produced with.  Scenario `misroute-key`.

use super::common::*;
use super::run_rng;
use crate::gen::*;
use crate::model::*;
use crate::oracle;
use crate::runner::Scenario;

pub static SCENARIO: Scenario = Scenario {
    property: "C04",
    level: "exploration",
    rule: "misroute-key: an authentic token (any protocol, any issuing layer) is mis-delivered to verifiers identical to the right one except for key material, at the core, generic and batteries entry points (long-lived parser + fresh twin). Local K': single-bit neighbours of K (all 256 per sampled token in the thorough tier, 32 sampled in quick), all-zero, all-one, halves swapped, first/last 16 bytes replaced, random. Public: other pairs of the pool, v3: the sign-flipped compressed point (02<->03) and invalid points, v2/v4: invalid/low-order points. Heal phase: the right key still verifies. Non-trivial = at least one wrong-key delivery; distinct = distinct abstract traces.",
    runs: |t| match t {
        Tier::Quick => 4_000,
        Tier::Thorough => 200_000,
    },
    gen,
    judge: |run, obs| oracle::judge("C04", run, obs),
    assumptions: &["'other key' means different verifier-side key bytes (symmetric key / public key) as resolved by the harness"],
    exhaustive: &[],
};

fn gen(ctx: &GenCtx, i: u64) -> Option<Run> {
    let mut r = run_rng(ctx, "C04", i);
    let proto = if i < 8 { ALL_PROTOS[i as usize] } else { weighted_proto(&mut r) };
    let layer = random_layer(&mut r);
    let mut rb = RunBuilder::new("C04", "misroute-key", ctx.verif_seed, i);
    let now = gen_now(&mut r);
    let kspec = key_for(proto, &mut r);
    let key = rb.key(kspec.clone());
    let mlen = gen_len(&mut r, false).min(120);
    let mut footer = gen_opt_text(&mut r).map(|f| f.chars().take(12).collect::<String>());
    if !proto.is_local() && r.chance(1, 3) {
        // the footer announces the signer's own public key (serialised-key / key-id style footers): the
        // announcement is authenticated, but it must never replace the key the verifier was given
        if let Some(pk) = crate::keys::resolve(&kspec).public_for(proto) {
            use base64::prelude::*;
            let b64 = BASE64_URL_SAFE_NO_PAD.encode(&pk);
            let ver = &proto.name()[1..2];
            footer = Some(match r.below(5) {
                0 | 1 => format!("k{}.public.{}", ver, b64),
                2 => format!("{{\"kid\":\"k{}.public.{}\"}}", ver, b64),
                3 => format!("{{\"wpk\":\"{}\"}}", b64),
                _ => hex::encode(&pk),
            });
        }
    }
    let assertion = if proto.has_assertion() { gen_opt_text(&mut r).map(|f| f.chars().take(12).collect::<String>()) } else { None };
    // core layer: often a raw (non-JSON) message, with the very short ones over-represented - a wrong
    // key that slips through authentication only shows if the garbage plaintext is still UTF-8
    let raw = layer == Layer::Core && r.chance(1, 2);
    let msg = if raw { text!(r, *r.pick(&[0usize, 0, 1, 1, 2, 3, 16, 40])) } else { ascii!(r, mlen) };
    let opts = IssueOpts { proto, layer, key, footer, assertion, now, message: msg.clone(), json_payload: if raw { None } else { Some(serde_json::json!({"data": msg})) }, extra_claims: vec![] };
    let t = issue(&mut rb, &mut r, opts);
    let at = t.issued_at + r.range(1, HOUR - 2);
    let mut others: Vec<KeySpec> = vec![];
    match &kspec {
        KeySpec::Sym { hex: h } => {
            let k = hex::decode(h).unwrap();
            let nbits = if ctx.tier == Tier::Thorough { 256 } else { 32 };
            let mut bits: Vec<usize> = (0..256).collect();
            if nbits < 256 {
                // sample without replacement, always including the first and last bit of each half
                let mut chosen = vec![0usize, 7, 127, 128, 248, 255];
                while chosen.len() < nbits {
                    let b = r.usize(256);
                    if !chosen.contains(&b) {
                        chosen.push(b);
                    }
                }
                bits = chosen;
            }
            for b in bits {
                let mut k2 = k.clone();
                k2[b / 8] ^= 1 << (b % 8);
                others.push(KeySpec::Sym { hex: hex::encode(k2) });
            }
            others.push(KeySpec::Sym { hex: "00".repeat(32) });
            others.push(KeySpec::Sym { hex: "ff".repeat(32) });
            let mut sw = k[16..].to_vec();
            sw.extend_from_slice(&k[..16]);
            others.push(KeySpec::Sym { hex: hex::encode(sw) });
            let mut a = k.clone();
            a[..16].copy_from_slice(&r.bytes(16));
            others.push(KeySpec::Sym { hex: hex::encode(a) });
            let mut b = k.clone();
            b[16..].copy_from_slice(&r.bytes(16));
            others.push(KeySpec::Sym { hex: hex::encode(b) });
            for _ in 0..3 {
                others.push(sym_key(&mut r));
            }
        }
        KeySpec::Ed { .. } => {
            for _ in 0..6 {
                others.push(ed_key(&mut r));
            }
            // invalid / special encodings presented as a public key
            others.push(KeySpec::RawPublic { hex: "00".repeat(32) });
            others.push(KeySpec::RawPublic { hex: format!("01{}", "00".repeat(31)) });
            others.push(KeySpec::RawPublic { hex: "ff".repeat(32) });
            others.push(KeySpec::RawPublic { hex: hex::encode(r.bytes(32)) });
        }
        KeySpec::P384 { .. } => {
            for _ in 0..3 {
                others.push(p384_key(&mut r));
            }
            // the sign-flipped point and invalid points
            if let crate::keys::KeyMat::P384 { public49, .. } = crate::keys::resolve(&kspec) {
                let mut f = public49.clone();
                f[0] ^= 1;
                others.push(KeySpec::RawPublic { hex: hex::encode(f) });
                // every other single-bit neighbour of the tag byte, and a few in the x coordinate
                for bit in 1..8 {
                    let mut h = public49.clone();
                    h[0] ^= 1 << bit;
                    others.push(KeySpec::RawPublic { hex: hex::encode(h) });
                }
                for _ in 0..4 {
                    let mut h = public49.clone();
                    h[1 + r.usize(48)] ^= 1 << r.below(8);
                    others.push(KeySpec::RawPublic { hex: hex::encode(h) });
                }
                let mut g = public49.clone();
                g[48] ^= 1;
                others.push(KeySpec::RawPublic { hex: hex::encode(g) });
            }
            others.push(KeySpec::RawPublic { hex: format!("02{}", "00".repeat(48)) });
            others.push(KeySpec::RawPublic { hex: format!("03{}", "ff".repeat(48)) });
        }
        KeySpec::Rsa { fixture } => {
            for f in 0..crate::keys::RSA_2048_FIXTURES {
                if f != *fixture {
                    others.push(KeySpec::Rsa { fixture: f });
                }
            }
            // same modulus, another public exponent: flip single bits in the last three DER bytes
            if let crate::keys::KeyMat::Rsa { pubder, .. } = crate::keys::resolve(&kspec) {
                for bit in [0usize, 1, 7, 8, 15, 16, 17, 23] {
                    let mut d = pubder.to_vec();
                    let l = d.len();
                    d[l - 1 - bit / 8] ^= 1 << (bit % 8);
                    others.push(KeySpec::RawPublic { hex: hex::encode(d) });
                }
            }
            others.push(KeySpec::RawPublic { hex: "3000".into() });
            others.push(KeySpec::RawPublic { hex: String::new() });
            others.push(KeySpec::RawPublic { hex: hex::encode(r.bytes(270)) });
        }
        _ => {}
    }
    others.retain(|k| k != &kspec);
    if raw && proto.is_local() {
        // many random wrong keys against a short raw message (a 1-in-256 tag-check weakness needs volume)
        let extra = if ctx.tier == Tier::Thorough { 2048 } else { 384 };
        for _ in 0..extra {
            others.push(KeySpec::Sym { hex: hex::encode(r.bytes(32)) });
        }
    }
    // a long-lived parser that is handed the right key, then wrong keys, then the right key again:
    // parse(token, key) takes the key per call, so nothing may be remembered from the earlier call
    {
        let vlayer = if raw { Layer::Core } else { random_layer(&mut r) };
        let mut spec = plain_spec(&t, vlayer);
        spec.default_validators = vlayer == Layer::Batteries;
        spec.hash_seed = r.next();
        let v = rb.verifier(spec);
        rb.deliver(t.msg, v, at);
        let take = others.len().min(6);
        for k in 0..take {
            let kid = rb.key(others[(k * 7 + i as usize) % others.len()].clone());
            rb.push(Op::Deliver { msg: t.msg, to: v, now_ns: Ns(at), ticks: vec![], twin: false, control: None, key: Some(kid) });
            if k % 2 == 1 {
                rb.deliver(t.msg, v, at);
            }
        }
    }
    for (n, ok) in others.into_iter().enumerate() {
        let kid = rb.key(ok);
        let vlayer = if raw { Layer::Core } else { ALL_LAYERS[(n + i as usize) % 3] };
        let mut spec = plain_spec(&t, vlayer);
        spec.key = kid;
        spec.default_validators = vlayer == Layer::Batteries;
        spec.hash_seed = r.next();
        let v = rb.verifier(spec);
        rb.push(Op::Deliver { msg: t.msg, to: v, now_ns: Ns(at), ticks: vec![], twin: n % 5 == 0 && vlayer != Layer::Core, control: None, key: None });
    }
    // v3.public: an ECDSA signature verifies under TWO public keys; the second one can be computed from the
    // token itself.  Only the signer's key may be accepted (the protocol binds it into the signed bytes).
    if proto == Proto::V3P {
        for with_pk in [true, false] {
            for recid in 0..2u8 {
                let slot = rb.key(KeySpec::RawPublic { hex: String::new() });
                rb.push(Op::RecoverKey { msg: t.msg, signer: key, assertion: t.assertion.clone(), with_pk, recid, slot });
                for vlayer in if raw { vec![Layer::Core] } else { ALL_LAYERS.to_vec() } {
                    let mut spec = plain_spec(&t, vlayer);
                    spec.key = slot;
                    spec.default_validators = vlayer == Layer::Batteries;
                    let v = rb.verifier(spec);
                    rb.deliver(t.msg, v, at);
                }
            }
        }
    }
    // a second issuer under ANOTHER key, active after the first one: its tokens must not verify under the
    // first key and vice versa (nothing of the first signing may stick)
    {
        let k2 = match &kspec {
            KeySpec::Rsa { fixture } => {
                // prefer a fixture whose PKCS#8 encoding has the same length
                let same_len: Vec<usize> = (0..crate::keys::RSA_2048_FIXTURES).filter(|f| f != fixture && crate::keys::RSA_FIXTURES[*f].0.len() == crate::keys::RSA_FIXTURES[*fixture].0.len()).collect();
                if same_len.is_empty() { other_key_for(proto, &kspec, &mut r) } else { KeySpec::Rsa { fixture: *r.pick(&same_len) } }
            }
            _ => other_key_for(proto, &kspec, &mut r),
        };
        let key2 = rb.key(k2);
        let msg2 = ascii!(r, 1 + r.usize(30));
        let opts = IssueOpts { proto, layer, key: key2, footer: t.footer.clone(), assertion: t.assertion.clone(), now, message: msg2.clone(), json_payload: Some(serde_json::json!({"data": msg2})), extra_claims: vec![] };
        let t2 = issue(&mut rb, &mut r, opts);
        for (tok, vk) in [(&t2, key), (&t, key2), (&t2, key2)] {
            let vlayer = random_layer(&mut r);
            let mut spec = plain_spec(tok, vlayer);
            spec.key = vk;
            spec.default_validators = vlayer == Layer::Batteries;
            let v = rb.verifier(spec);
            rb.deliver(tok.msg, v, at);
        }
    }
    // keys also enter as hex text: what is accepted must denote exactly its bytes (all cases of digits)
    for n in [32usize, 64] {
        let bytes = r.bytes(n);
        let lower = hex::encode(&bytes);
        let upper = lower.to_uppercase();
        let mixed: String = lower.chars().map(|c| if r.chance(1, 2) { c.to_ascii_uppercase() } else { c }).collect();
        for text in [lower, upper, mixed, "AB".repeat(n), "aB".repeat(n), "Ff".repeat(n)] {
            rb.push(Op::KeyParse { n, text });
        }
    }
    // heal: right key, fresh verifier
    let vlayer = if raw { Layer::Core } else { random_layer(&mut r) };
    let mut spec = plain_spec(&t, vlayer);
    spec.default_validators = vlayer == Layer::Batteries;
    let v = rb.verifier(spec);
    rb.deliver(t.msg, v, at);
    Some(rb.finish())
}
