//! C15 — expected-claim checks accept exactly the tokens that carry those claims.
//! C16 — custom validators see only authenticated values and their verdict is honoured.
//! Scenario `verifier-history` (shared): one long-lived parser, a stream of tokens, duplication,
//! reordering, tampered and mis-keyed strays, a restart twin and a control parser per delivery.

use super::common::*;
use super::run_rng;
use crate::env::Behaviour;
use crate::gen::*;
use crate::model::*;
use crate::oracle;
use crate::prng::Rng;
use crate::runner::Scenario;
use serde_json::{json, Value};

pub static C15: Scenario = Scenario {
    property: "C15",
    level: "exploration",
    rule: "verifier-history: one long-lived GenericParser / PasetoParser::new() / PasetoParser::default() with expected set E (1..4 claims over registered and custom keys; string, number, boolean, array, object values; registered through check_claim or extend_check_claims) receives a stream of authentic tokens whose claim sets S_j are derived from E: equal, a claim dropped, a claim added, one value differing in type / letter case / number form / nested member, a key differing by one character, a null value; tokens are issued through the generic builder, the batteries builder or as core JSON payloads. The channel duplicates and reorders deliveries and interleaves tampered and mis-keyed strays; every delivery also goes to a freshly constructed twin (restart) under a different hash seed and to an expectation-free control parser. Oracle: unmet expectation -> Err, never Ok, the claim error names a key that really fails (Missing when only missing ones fail); all met -> accepted whenever the control accepts; the verdict class for a token is the same at every position of the stream and equal to the twin's. Latitude: 1 vs 1.0. Non-trivial = stream with an unmet expectation, a repeated delivery or a stray; distinct = distinct abstract traces.",
    runs: |t| match t {
        Tier::Quick => 20_000,
        Tier::Thorough => 1_500_000,
    },
    gen: |c, i| gen(c, i, "C15"),
    judge: |run, obs| oracle::judge("C15", run, obs),
    assumptions: &["expectation keys and validator keys are kept disjoint, except for the known finding (check_claim(exp|nbf) on PasetoParser::default()) which is exercised in a dedicated slice of runs"],
    exhaustive: &[],
};

pub static C16: Scenario = Scenario {
    property: "C16",
    level: "exploration",
    rule: "verifier-history with validators: sets of 1..5 validate_claim registrations (accept, reject, accept-iff-value-equals-x; every call logged with registration slot, key and value) over registered and custom keys, present and absent in the payload, on GenericParser, PasetoParser::new() and PasetoParser::default() (whose own exp/nbf validators are observed through the clock seam); also registrations through extend_validation_claims with and without extend_check_claims. Deliveries: authentic, every kind of channel corruption, wrong key / footer / assertion / protocol, garbage; long-lived parser plus restart twin under a different hash seed so that every validator order occurs. Oracle per parse: not authentic -> call log empty and cipher-class Err; every logged call carries its registration key and payload[key] (null when absent); a rejecting validator -> Err(claim error); Ok -> every registered validator ran exactly once and returned Ok; no validator twice. Non-trivial = every run; distinct = distinct abstract traces.",
    runs: |t| match t {
        Tier::Quick => 20_000,
        Tier::Thorough => 1_500_000,
    },
    gen: |c, i| gen(c, i, "C16"),
    judge: |run, obs| oracle::judge("C16", run, obs),
    assumptions: &["early exit at the first failing validator is allowed; which one is first is decided by the simulated hash seed"],
    exhaustive: &[],
};

fn scalar(r: &mut Rng) -> Value {
    if r.chance(1, 10) {
        // blank but present values: not "missing"
        return (*r.pick(&[json!(""), json!([]), json!({}), json!(0), json!(false), json!(" ")])).clone();
    }
    match r.below(8) {
        0 => json!(r.range(-1000, 1000) as i64),
        1 => json!(r.chance(1, 2)),
        2 => json!([1, "two", {"three": 3}]),
        3 => json!({"a": {"b": [1, 2, 3]}, "c": "d"}),
        4 => json!(1),
        5 => json!(2.5),
        6 if r.chance(1, 2) => json!(9_007_199_254_740_993i64),
        _ => json!(ascii!(r, 1 + r.usize(8))),
    }
}

fn expectation(r: &mut Rng, used: &mut Vec<String>, time_claims: bool) -> ClaimSpec {
    loop {
        let c = match r.below(if time_claims { 12 } else { 10 }) {
            // exp / nbf as ordinary expected claims (parsers without the default time validators)
            10 => ClaimSpec::Exp(format!("20{:02}-0{}-1{}T0{}:00:00{}", 30 + r.below(10), 1 + r.below(9), r.below(9), r.below(9), *r.pick(&["Z", "+00:00", "-05:00"]))),
            11 => ClaimSpec::Nbf(format!("20{:02}-0{}-1{}T0{}:00:00{}", 10 + r.below(9), 1 + r.below(9), r.below(9), r.below(9), *r.pick(&["Z", "+00:00", "-05:00"]))),
            0 => ClaimSpec::Iss(ascii!(r, 1 + r.usize(8))),
            1 => ClaimSpec::Sub(ascii!(r, 1 + r.usize(8))),
            2 => ClaimSpec::Aud(ascii!(r, 1 + r.usize(8))),
            3 => ClaimSpec::Jti(ascii!(r, 1 + r.usize(8))),
            4 => ClaimSpec::Native { key: (*r.pick(&["uid", "n", "level"])).to_string(), val: NativeVal::I64(r.range(-5, 5) as i64) },
            7 if r.chance(1, 2) => ClaimSpec::Native { key: (*r.pick(&["tenant", "opt", "unit"])).to_string(), val: if r.chance(1, 2) { NativeVal::OptStr(None) } else { NativeVal::Unit } },
            6 if r.chance(1, 2) => ClaimSpec::CustomRef { key: (*r.pick(&[" role", "role ", "\trole", "ro le", "\u{a0}k", "k\n"])).to_string(), value: scalar(r) },
            5 => ClaimSpec::Iat(format!("20{:02}-0{}-1{}T0{}:00:00{}", 20 + r.below(10), 1 + r.below(9), r.below(9), r.below(9), *r.pick(&["Z", "+00:00", "-05:00"]))),
            // (the empty string is a legal member name and a legal custom key)
            _ => ClaimSpec::Custom { key: (*r.pick(&["role", "scope", "data", "k", "tenant", "Role", "a/b", "a~1b", "https://example.com/claims/seats", "x.y", ""])).to_string(), value: scalar(r) },
        };
        if !used.contains(&c.key().to_string()) {
            used.push(c.key().to_string());
            return c;
        }
    }
}

/// the same value with the first nested array of >= 2 distinct-ended elements reversed
fn permute_nested(v: &Value) -> Option<Value> {
    match v {
        Value::Array(a) if a.len() >= 2 && a.first() != a.last() => {
            let mut b = a.clone();
            b.reverse();
            Some(Value::Array(b))
        }
        Value::Array(a) => {
            for (i, x) in a.iter().enumerate() {
                if let Some(p) = permute_nested(x) {
                    let mut b = a.clone();
                    b[i] = p;
                    return Some(Value::Array(b));
                }
            }
            None
        }
        Value::Object(o) => {
            for (k, x) in o {
                if let Some(p) = permute_nested(x) {
                    let mut b = o.clone();
                    b.insert(k.clone(), p);
                    return Some(Value::Object(b));
                }
            }
            None
        }
        _ => None,
    }
}

fn mutate_value(r: &mut Rng, v: &Value) -> Value {
    match v {
        Value::String(s) => match r.below(4) {
            0 => {
                let f: String = s.chars().map(|c| if c.is_ascii_lowercase() { c.to_ascii_uppercase() } else { c.to_ascii_lowercase() }).collect();
                if &f != s {
                    json!(f)
                } else {
                    json!(format!("{}x", s))
                }
            }
            1 => json!(format!("{} ", s)),
            2 => json!([s]),
            _ => json!(format!("{}x", s)),
        },
        Value::Number(n) => match r.below(4) {
            0 => json!(n.to_string()),
            1 => {
                // same number, other form: the documented latitude
                if let Some(i) = n.as_i64() {
                    json!(i as f64)
                } else {
                    json!(n.as_f64().unwrap_or(0.0) + 1.0)
                }
            }
            2 => {
                if let Some(i) = n.as_i64() {
                    // a different integer (for large ones: one that an f64 comparison cannot tell apart)
                    json!(i - 1)
                } else {
                    json!(n.as_f64().unwrap_or(0.0) + 1.0)
                }
            }
            _ => json!(true),
        },
        Value::Bool(b) => match r.below(3) {
            0 => json!(!b),
            1 => json!(b.to_string()),
            _ => json!(if *b { 1 } else { 0 }),
        },
        Value::Array(a) if a.len() >= 2 && a.first() != a.last() && r.chance(1, 2) => {
            // the same elements in another order: a different JSON value
            let mut b = a.clone();
            b.reverse();
            Value::Array(b)
        }
        Value::Array(a) => {
            let mut b = a.clone();
            if b.is_empty() || r.chance(1, 2) {
                b.push(json!(0));
            } else {
                b.pop();
            }
            Value::Array(b)
        }
        Value::Object(o) => {
            // half of the time: an array somewhere inside gets its elements in another order
            if r.chance(1, 2) {
                if let Some(p) = permute_nested(v) {
                    return p;
                }
            }
            let mut b = o.clone();
            b.insert("zz".into(), json!(1));
            Value::Object(b)
        }
        Value::Null => json!(0),
    }
}

/// derive a token claim set from the expected set; returns the claims to set
fn derive(r: &mut Rng, e: &[ClaimSpec], class: u64) -> Vec<ClaimSpec> {
    let mut s: Vec<ClaimSpec> = e.to_vec();
    let registered = |c: &ClaimSpec| !matches!(c, ClaimSpec::Custom { .. } | ClaimSpec::Native { .. });
    match class {
        0 => {}
        1 => {
            if !s.is_empty() {
                s.remove(r.usize(s.len()));
            }
        }
        2 => s.push(ClaimSpec::Custom { key: format!("extra{}", r.below(3)), value: scalar(r) }),
        3 => {
            if !s.is_empty() {
                let k = r.usize(s.len());
                let c = s[k].clone();
                s[k] = if registered(&c) {
                    let nv = match mutate_value(r, &c.value()) {
                        Value::String(x) => x,
                        _ => format!("{}x", c.value().as_str().unwrap_or("")),
                    };
                    match c {
                        ClaimSpec::Iss(_) => ClaimSpec::Iss(nv),
                        ClaimSpec::Sub(_) => ClaimSpec::Sub(nv),
                        ClaimSpec::Aud(_) => ClaimSpec::Aud(nv),
                        ClaimSpec::Jti(_) => ClaimSpec::Jti(nv),
                        ClaimSpec::Iat(old) => {
                            // another well-formed instant
                            let mut b = old.into_bytes();
                            b[3] = if b[3] == b'9' { b'8' } else { b[3] + 1 };
                            ClaimSpec::Iat(String::from_utf8(b).unwrap_or_default())
                        }
                        ClaimSpec::Exp(old) => {
                            let mut b = old.into_bytes();
                            b[3] = if b[3] == b'9' { b'8' } else { b[3] + 1 };
                            ClaimSpec::Exp(String::from_utf8(b).unwrap_or_default())
                        }
                        ClaimSpec::Nbf(old) => {
                            let mut b = old.into_bytes();
                            b[3] = if b[3] == b'9' { b'8' } else { b[3] + 1 };
                            ClaimSpec::Nbf(String::from_utf8(b).unwrap_or_default())
                        }
                        o => o,
                    }
                } else {
                    ClaimSpec::Custom { key: c.key().to_string(), value: mutate_value(r, &c.value()) }
                };
            }
        }
        4 => {
            // key differing by one character (custom keys only; registered ones are dropped instead)
            if !s.is_empty() {
                let k = r.usize(s.len());
                let c = s[k].clone();
                if registered(&c) {
                    s.remove(k);
                } else {
                    let nk = match r.below(3) {
                        0 => format!("{}x", c.key()),
                        1 => c.key().to_uppercase(),
                        _ => c.key().chars().skip(1).collect::<String>(),
                    };
                    if !nk.is_empty() && !RESERVED.contains(&nk.as_str()) && nk != c.key() {
                        s[k] = ClaimSpec::Custom { key: nk, value: c.value() };
                    } else {
                        s.remove(k);
                    }
                }
            }
        }
        5 => {
            if !s.is_empty() {
                let k = r.usize(s.len());
                let c = s[k].clone();
                if registered(&c) {
                    s.remove(k);
                } else {
                    s[k] = ClaimSpec::Custom { key: c.key().to_string(), value: Value::Null };
                }
            }
        }
        _ => {
            // the payload carries an array that CONTAINS the expected value (JWT-style multi-valued claim):
            // JSON-equality says that is a different value
            if !s.is_empty() {
                let k = r.usize(s.len());
                let c = s[k].clone();
                let arr = if r.chance(1, 2) { json!([c.value(), "other"]) } else { json!([c.value()]) };
                s[k] = ClaimSpec::Custom { key: c.key().to_string(), value: arr };
            }
        }
    }
    s
}

fn gen(ctx: &GenCtx, i: u64, prop: &str) -> Option<Run> {
    let mut r = run_rng(ctx, prop, i);
    let proto = if i < 8 { ALL_PROTOS[i as usize] } else { weighted_proto(&mut r) };
    let slow = matches!(proto, Proto::V3P | Proto::V1P);
    let mut rb = RunBuilder::new(prop, "verifier-history", ctx.verif_seed, i);
    let now = gen_now(&mut r).clamp(T_1971 + 2 * DAY, t_9000() - 400 * DAY);
    let kspec = key_for(proto, &mut r);
    let key = rb.key(kspec.clone());
    let mut footer = if r.chance(1, 3) { Some(nonempty_text!(r, 6)) } else { None };
    let assertion = if proto.has_assertion() && r.chance(1, 3) { Some(nonempty_text!(r, 6)) } else { None };

    // ---- the verifier under test
    let (layer, default_validators) = match r.below(3) {
        0 => (Layer::Generic, false),
        1 => (Layer::Batteries, false),
        _ => (Layer::Batteries, true),
    };
    let mut used: Vec<String> = vec![];
    let mut expect: Vec<ClaimSpec> = vec![];
    // (one run in forty: many registrations at once)
    let scale = i % 40 == 39;
    let ne = if prop == "C15" { 1 + r.usize(4) } else { r.usize(3) };
    for _ in 0..ne {
        expect.push(expectation(&mut r, &mut used, !default_validators));
    }
    if scale {
        for k in 0..12 + r.usize(40) {
            let key_k = format!("e{:02}", k);
            used.push(key_k.clone());
            expect.push(ClaimSpec::Custom { key: key_k, value: scalar(&mut r) });
        }
    }
    let mut validators: Vec<ValidatorSpec> = vec![];
    let nv = if prop == "C16" { 1 + r.usize(5) } else if r.chance(1, 4) { 1 + r.usize(2) } else { 0 };
    // known-finding slices (rare): validators registered only through extend_validation_claims;
    // check_claim(exp|nbf) on the default parser
    let kf_extend_only = prop == "C16" && layer == Layer::Generic && i % 29 == 7;
    let kf_shadowed = prop == "C15" && default_validators && i % 31 == 5;
    for k in 0..nv {
        let keyname = loop {
            let c = (*r.pick(&["vdata", "vrole", "vabsent", "vnum", "sub", "aud", "jti", "iss", "v/data", "v~1x", "https://example.com/claims/v", "exp", "nbf", "iat", ""])).to_string();
            // the same key may be registered twice (the later registration is the one in force); exp/nbf
            // validators replace the default ones of PasetoParser::default()
            let dup_ok = prop == "C16" && validators.iter().any(|x: &ValidatorSpec| x.claim.key() == c) && r.chance(1, 3);
            if (c == "exp" || c == "nbf") && (prop != "C16" || !r.chance(1, 4)) {
                continue;
            }
            if !used.contains(&c) || dup_ok {
                used.push(c.clone());
                break c;
            }
        };
        let claim = match keyname.as_str() {
            "sub" => ClaimSpec::Sub(String::new()),
            "aud" => ClaimSpec::Aud(String::new()),
            "jti" => ClaimSpec::Jti(String::new()),
            "iss" => ClaimSpec::Iss(String::new()),
            "exp" => ClaimSpec::Exp("2019-01-01T00:00:00+00:00".into()),
            "nbf" => ClaimSpec::Nbf("2019-01-01T00:00:00+00:00".into()),
            "iat" => ClaimSpec::Iat("2019-01-01T00:00:00+00:00".into()),
            _ => ClaimSpec::Custom { key: keyname.clone(), value: match r.below(4) { 0 => json!("good"), 1 => json!(7), _ => json!("") } },
        };
        let claim = match (&claim, r.below(3)) {
            (ClaimSpec::Sub(_), 0) => ClaimSpec::Sub("good".into()),
            (ClaimSpec::Aud(_), 0) => ClaimSpec::Aud("good".into()),
            (ClaimSpec::Jti(_), 0) => ClaimSpec::Jti("good".into()),
            (ClaimSpec::Iss(_), 0) => ClaimSpec::Iss("good".into()),
            _ => claim,
        };
        // one registration in sixteen (custom keys): the claim object handed to validate_claim has no JSON form
        let claim = match &claim {
            ClaimSpec::Custom { key, .. } if prop == "C16" && r.chance(1, 16) => ClaimSpec::Native { key: key.clone(), val: NativeVal::Unserialisable },
            _ => claim,
        };
        let claim = match (claim.key(), r.below(3)) {
            // the documented way to name a registered claim for a validator
            ("sub" | "aud" | "jti" | "iss", 0) => ClaimSpec::DefaultOf(claim.key().to_string()),
            _ => claim,
        };
        let behaviour = match r.below(7) {
            6 => Behaviour::RejectAs((*r.pick(&["Unexpected", "Invalid", "Missing", "Expired", "RFC3339Date", "UseBeforeAvailable", "Reserved", "DuplicateTopLevelPayloadClaim"])).to_string()),
            0 => Behaviour::Reject,
            1 | 2 => Behaviour::ExpectEq(match r.below(3) {
                0 => json!("good"),
                1 => Value::Null,
                _ => json!(7),
            }),
            _ => Behaviour::Accept,
        };
        let via = if layer == Layer::Generic {
            if kf_extend_only && k == 0 {
                Via::ExtendOnly
            } else if r.chance(1, 6) {
                Via::ExtendBoth
            } else {
                Via::Validate
            }
        } else {
            Via::Validate
        };
        validators.push(ValidatorSpec { claim, behaviour, via });
    }
    if r.chance(1, 5) {
        // a JSON footer that happens to have members named like the checked / validated claims (footers
        // commonly carry a key id as JSON): validators and expectations are about the payload only
        let mut o = serde_json::Map::new();
        o.insert("kid".into(), json!("k4.lid.abc"));
        for vs in &validators {
            let val = match &vs.behaviour {
                Behaviour::ExpectEq(x) if !x.is_null() => x.clone(),
                _ => json!("good"),
            };
            o.insert(vs.claim.key().to_string(), val);
        }
        for e in &expect {
            o.insert(e.key().to_string(), e.value());
        }
        footer = Some(Value::Object(o).to_string());
    }
    let expect_via_extend = layer == Layer::Generic && r.chance(1, 5) && expect.iter().all(|c| !RESERVED.contains(&c.key()));
    let mut expect_final = expect.clone();
    if kf_shadowed {
        let t = now + 5 * DAY;
        expect_final.push(if r.chance(1, 2) { ClaimSpec::Exp(render_canonical_t(&mut r, t - t.rem_euclid(crate::civil::NS))) } else { ClaimSpec::Nbf(render_canonical_t(&mut r, now - 5 * DAY - (now - 5 * DAY).rem_euclid(crate::civil::NS))) });
    }
    let vspec = VerifierSpec { proto, layer, key, footer: footer.clone(), assertion: assertion.clone(), default_validators, expect: expect_final.clone(), expect_via_extend, validators: validators.clone(), hash_seed: r.next() };
    let control = VerifierSpec { expect: vec![], validators: vec![], expect_via_extend: false, ..vspec.clone() };
    let v = rb.verifier(vspec);

    // ---- the stream
    let mut r3 = run_rng(ctx, if prop == "C15" { "C15-wrapped" } else { "C16-wrapped" }, i);
    let ntok = if slow { 2 } else { 2 + r.usize(5) };
    let mut toks: Vec<TokenDesc> = vec![];
    for _ in 0..ntok {
        let class = match r.below(11) {
            0..=3 => 0,
            x => x - 3,
        };
        let mut claims = derive(&mut r, &expect, class.min(6));
        // values the validators will look at
        for vs in &validators {
            let k = vs.claim.key().to_string();
            if k == "vabsent" || k == "exp" || k == "nbf" || claims.iter().any(|c| c.key() == k) {
                continue;
            }
            if r.chance(2, 3) {
                let val = match (&vs.behaviour, r.below(4)) {
                    (Behaviour::ExpectEq(x), 0 | 1) if !x.is_null() => x.clone(),
                    // the value the registration itself carries as a placeholder
                    (_, 2) => vs.claim.value(),
                    _ => json!(ascii!(r, 1 + r.usize(5))),
                };
                claims.push(match k.as_str() {
                    "sub" => ClaimSpec::Sub(val.as_str().unwrap_or("s").to_string()),
                    "aud" => ClaimSpec::Aud(val.as_str().unwrap_or("a").to_string()),
                    "jti" => ClaimSpec::Jti(val.as_str().unwrap_or("j").to_string()),
                    "iss" => ClaimSpec::Iss(val.as_str().unwrap_or("i").to_string()),
                    _ => ClaimSpec::Custom { key: k, value: val },
                });
            }
        }
        // one token in six (a stream of its own): a value the verifier looks for arrives wrapped in a
        // collection - the member is then an array / object and equals no scalar; a validator must be handed
        // that very collection, once
        if r3.chance(1, 6) && !claims.is_empty() {
            let ix = r3.usize(claims.len());
            let k = claims[ix].key().to_string();
            let v = claims[ix].value();
            if !k.is_empty() && k != "exp" && k != "nbf" && k != "iat" {
                let other = json!("attackers");
                let wrapped = match r3.below(6) {
                    0 => json!([v]),
                    1 => json!([other, v]),
                    2 => json!([v, other]),
                    3 => json!([other, v, "ops"]),
                    4 => json!({ "0": v }),
                    _ => json!([[v]]),
                };
                claims[ix] = ClaimSpec::Custom { key: k, value: wrapped };
            }
        }
        let needs_core = claims.iter().any(|c| matches!(c, ClaimSpec::Custom { key, .. } if RESERVED.contains(&key.as_str())));
        // one token in eight: authentic JSON that is not an object (no member at all can be present), made of
        // the very keys and values the verifier looks for
        let nonobj: Option<Value> = if r.chance(1, 8) {
            let ks: Vec<Value> = claims.iter().map(|c| json!(c.key())).collect();
            let kv: Vec<Value> = claims.iter().map(|c| json!({c.key(): c.value()})).collect();
            Some(match r.below(7) {
                0 => Value::Array(ks),
                1 => Value::Array(kv),
                2 => json!(claims.first().map_or("aud".to_string(), |c| c.key().to_string())),
                3 => json!(42),
                4 => json!(true),
                5 => Value::Null,
                _ => json!([]),
            })
        } else {
            None
        };
        let ilayer = if needs_core || nonobj.is_some() { Layer::Core } else { random_layer(&mut r) };
        let mut payload = serde_json::Map::new();
        for c in &claims {
            payload.insert(c.key().to_string(), c.value());
        }
        if kf_shadowed && ilayer == Layer::Core {
            let t = now + DAY;
            payload.insert("exp".into(), json!(render_canonical(&mut r, t - t.rem_euclid(crate::civil::NS))));
        }
        let opts = IssueOpts {
            proto,
            layer: ilayer,
            key,
            footer: footer.clone(),
            assertion: assertion.clone(),
            now,
            message: String::new(),
            json_payload: Some(nonobj.clone().unwrap_or(Value::Object(payload))),
            extra_claims: vec![],
        };
        // builder layers: set the claims through their typed constructors instead of a JSON payload
        let t = if ilayer == Layer::Core {
            issue(&mut rb, &mut r, opts)
        } else {
            let o2 = IssueOpts { json_payload: Some(json!({})), extra_claims: claims.clone(), ..opts };
            issue(&mut rb, &mut r, o2)
        };
        toks.push(t);
    }
    // strays: a token under another key, tampered copies
    let stray_key = rb.key(other_key_for(proto, &kspec, &mut r));
    let stray = {
        let opts = IssueOpts { proto, layer: Layer::Core, key: stray_key, footer: footer.clone(), assertion: assertion.clone(), now, message: String::new(), json_payload: Some(json!({"vdata": "good", "role": "admin"})), extra_claims: vec![] };
        issue(&mut rb, &mut r, opts)
    };
    let mut schedule: Vec<u32> = vec![];
    for t in &toks {
        schedule.push(t.msg);
        if r.chance(1, 2) {
            schedule.push(t.msg); // duplicate
        }
    }
    if prop == "C16" || r.chance(1, 2) {
        schedule.push(stray.msg);
        let victim = toks[r.usize(toks.len())].msg;
        let faults = [
            FaultKind::BitFlip { seg: Seg::Payload, bit: r.usize(64 * 8) },
            FaultKind::Truncate { n: 20 + r.usize(40) },
            FaultKind::Extend { text: "AA".into() },
            FaultKind::FooterReplace { text: "other".into() },
            FaultKind::AddFooter { text: "other".into() },
            FaultKind::ShiftBodyTail { k: 1 },
            FaultKind::CharNext { pos: 12 + r.usize(30) },
            FaultKind::Relabel { to: *r.pick(&ALL_PROTOS) },
            FaultKind::AddEmptyFooter,
        ];
        let nf = if prop == "C16" { 2 + r.usize(4) } else { 1 };
        for _ in 0..nf {
            let f = r.pick(&faults).clone();
            schedule.push(rb.fault(victim, f, None));
        }
        if prop == "C16" && r.chance(1, 2) {
            let m = rb.msg();
            rb.push(Op::Literal { out: m, text: format!("{}{}", proto.header(), nonempty_text!(r, 30)) });
            schedule.push(m);
        }
    }
    // reorder (seeded Fisher-Yates on a copy of part of the schedule)
    if r.chance(1, 2) {
        for k in (1..schedule.len()).rev() {
            let j = r.usize(k + 1);
            schedule.swap(k, j);
        }
    }
    let mut at = now + r.range(1, 1000);
    let reconf_at = if r.chance(1, 3) && layer != Layer::Core && !expect_via_extend { Some(1 + r.usize(schedule.len().max(1))) } else { None };
    for (pos, m) in schedule.into_iter().enumerate() {
        if Some(pos) == reconf_at {
            // the live parser is re-configured between two parses
            let op = if prop == "C16" && !validators.is_empty() && r.chance(1, 2) {
                // check_claim(k = v) for a key that already has a validator: the validator stays in force
                let vs = r.pick(&validators).clone();
                let k = vs.claim.key().to_string();
                match k.as_str() {
                    "sub" => VOp::CheckClaim(ClaimSpec::Sub("good".into())),
                    "aud" => VOp::CheckClaim(ClaimSpec::Aud("good".into())),
                    "jti" => VOp::CheckClaim(ClaimSpec::Jti("good".into())),
                    "iss" => VOp::CheckClaim(ClaimSpec::Iss("good".into())),
                    "exp" => VOp::CheckClaim(ClaimSpec::Exp("2019-01-01T00:00:00+00:00".into())),
                    "nbf" => VOp::CheckClaim(ClaimSpec::Nbf("2019-01-01T00:00:00+00:00".into())),
                    _ => VOp::CheckClaim(ClaimSpec::Custom { key: k, value: json!("good") }),
                }
            } else if prop == "C15" || validators.len() >= 6 || r.chance(1, 2) {
                if !expect.is_empty() && r.chance(2, 3) {
                    // same key, other value: the later expectation is the one in force
                    let e = r.pick(&expect).clone();
                    let d = derive(&mut r, &[e.clone()], 3);
                    VOp::CheckClaim(d.into_iter().next().unwrap_or(e))
                } else {
                    VOp::CheckClaim(ClaimSpec::Custom { key: "late".into(), value: json!("x") })
                }
            } else {
                VOp::ValidateClaim(ValidatorSpec { claim: ClaimSpec::Custom { key: "vlate".into(), value: json!("") }, behaviour: if r.chance(1, 2) { Behaviour::Reject } else { Behaviour::Accept }, via: Via::Validate })
            };
            rb.push(Op::Reconfigure { v, op });
        }
        at += r.range(0, 60 * crate::civil::NS);
        if at >= now + HOUR {
            at = now + HOUR - 1;
        }
        rb.push(Op::Deliver { msg: m, to: v, now_ns: Ns(at), ticks: vec![], twin: true, control: Some(Box::new(control.clone())), key: None });
    }
    // C16: wrong footer / assertion expectations on separate verifiers with the same validators
    if prop == "C16" && r.chance(1, 2) {
        let mut s2 = VerifierSpec { proto, layer, key, footer: Some("not-the-footer".into()), assertion: assertion.clone(), default_validators, expect: vec![], expect_via_extend: false, validators: validators.iter().cloned().map(|mut x| { if x.via == Via::ExtendOnly { x.via = Via::Validate; } x }).collect(), hash_seed: r.next() };
        let v2 = rb.verifier(s2.clone());
        rb.deliver(toks[0].msg, v2, at);
        if proto.has_assertion() {
            s2.footer = footer.clone();
            s2.assertion = Some("not-the-assertion".into());
            let v3 = rb.verifier(s2);
            rb.deliver(toks[0].msg, v3, at);
        }
    }
    Some(rb.finish())
}
