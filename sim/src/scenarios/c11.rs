//! C11 — the default parser rejects expired tokens; C12 — … tokens that are not yet valid.
//! Scenario `delayed-skewed-delivery` on PasetoParser::<V,P>::default() for all 8 protocols.

use super::common::*;
use super::run_rng;
use crate::civil::{self, NS};
use crate::gen::*;
use crate::model::*;
use crate::oracle;
use crate::prng::Rng;
use crate::runner::Scenario;
use serde_json::{json, Value};

const RULE: &str = "delayed-skewed-delivery: tokens whose payload is crafted through the core layer (any JSON type and any rendering for the exp / nbf members) and PasetoBuilder tokens whose one-hour lifetime is crossed by channel delay and verifier clock skew are delivered to PasetoParser::<V,P>::default() of all 8 protocols under a simulated clock. Instants are generated relative to the verifier's simulated now: now + D, D in {-(now-1971), -1y, -1d, -1h, -60s, -2s, -1s, -1ms, -1us, -1ns, 0, +1ns, +1us, +1ms, +1s, +60s, +1h, +1d, +1y, up to year 9000}; renderings: every UTC offset -23:59..+23:59, 'Z', 0-9 fraction digits on the instant's grid, and (reject direction only) space / lower-case separators; non-timestamp values: numbers, booleans, arrays, objects, empty string, text, date without time; intra-parse ticks between the two validator reads in {0, 1ns, 1s, 2h, -1s}. Oracle window [r_min, r_max] = the reads the parse can be served. Accept-direction clauses are judged relative to a control delivery of the same token to a validator-free parser. Independent (exp, nbf) combinations. Non-trivial = a must-reject case was presented; distinct = distinct abstract traces.";

pub static C11: Scenario = Scenario {
    property: "C11",
    level: "exploration",
    rule: RULE,
    runs: |t| match t {
        Tier::Quick => 15_000,
        Tier::Thorough => 1_000_000,
    },
    gen: |c, i| gen(c, i, "C11"),
    judge: |run, obs| oracle::judge("C11", run, obs),
    assumptions: &[
        "exp: null is outside the statement (either verdict)",
        "accept-direction cases use canonical renderings only (upper-case T, Z or +-hh:mm, no leap second); exp in (r_min, r_max] is latitude",
    ],
    exhaustive: &[],
};

pub static C12: Scenario = Scenario {
    property: "C12",
    level: "exploration",
    rule: RULE,
    runs: |t| match t {
        Tier::Quick => 15_000,
        Tier::Thorough => 1_000_000,
    },
    gen: |c, i| gen(c, i, "C12"),
    judge: |run, obs| oracle::judge("C12", run, obs),
    assumptions: &[
        "the statement is silent at nbf == now: nbf in [r_min, r_max] is latitude",
        "accept-direction cases use canonical renderings only",
    ],
    exhaustive: &[],
};

fn delta(r: &mut Rng, now: i128) -> i128 {
    let ring: [i128; 19] = [
        -(365 * DAY), -DAY, -HOUR, -60 * NS, -2 * NS, -NS, -1_000_000, -1_000, -1, 0, 1, 1_000, 1_000_000, NS, 60 * NS, HOUR, DAY, 365 * DAY, 2 * NS,
    ];
    match r.below(12) {
        0 => -(now - T_1971),
        1 => (t_9000() - 1 - now).max(0),
        2 => r.range(-(now - T_1971), (t_9000() - 1 - now).max(0)),
        3 => r.range(-2 * NS, 2 * NS),
        4 => r.range(-HOUR, HOUR),
        _ => *r.pick(&ring),
    }
}

/// a member value for exp (dir = +1: future is good) or nbf (dir = -1: past is good)
fn member(r: &mut Rng, now: i128, dir: i128) -> Option<Value> {
    match r.below(16) {
        0 | 1 => None,
        2 => Some(Value::Null),
        3 => Some(non_timestamp_value_at(r, now)),
        5 => {
            // the ends of the four-digit-year range, where local time and UTC fall into different years
            const FAR_FUTURE: [&str; 8] = [
                "9999-12-31T23:59:59Z", "9999-12-31T23:59:59-01:00", "9999-12-31T23:59:59.999999999-00:01", "9999-12-31T12:00:00-12:00",
                "9999-12-31T23:59:59-23:59", "9999-12-31T00:00:00+00:00", "9999-06-15T12:00:00-08:00", "9999-12-31T23:59:59.999999999Z",
            ];
            const FAR_PAST: [&str; 5] = ["0000-01-01T00:00:00Z", "0000-01-01T00:00:00+23:59", "0001-01-01T00:00:00+00:01", "0000-12-31T23:59:59+12:00", "0001-01-01T00:00:00Z"];
            // mostly the side on which the member must make the parse fail
            let future = if r.chance(3, 4) { dir < 0 } else { dir > 0 };
            Some(json!(if future { *r.pick(&FAR_FUTURE) } else { *r.pick(&FAR_PAST) }))
        }
        7 if dir < 0 => {
            // long past (before the Unix epoch): still simply "in the past"
            let t = civil::ns_from_ymd_hms(1800 + r.below(170) as i64, 1 + r.below(12) as u32, 1 + r.below(28) as u32, r.below(24) as u32, r.below(60) as u32, r.below(60) as u32, if r.chance(1, 2) { 0 } else { 500_000_000 });
            let st = canonical_style(r, t);
            Some(json!(civil::render(t, st)))
        }
        6 => {
            // an instant that reads as a ROUND local time in its own offset (midnight, top of the hour or of
            // the minute), mostly on the side where the member must make the parse fail
            let off = *r.pick(&[0i128, 60, -60, -504, 330, 345, -720, 840, 1, -1439, 1439]) * 60 * NS;
            let unit = *r.pick(&[DAY, DAY, HOUR, 60 * NS]);
            let floor = (now + off).div_euclid(unit) * unit - off; // <= now
            let bad_is_past = dir > 0;
            let t = if r.chance(3, 4) == bad_is_past { floor } else { floor + unit };
            let t = t.clamp(T_1971, t_9000() - 1);
            let st = civil::Style { offset_min: (off / (60 * NS)) as i32, frac_digits: *r.pick(&[0u8, 0, 1, 3, 9]), sep: 'T', zulu: if r.chance(1, 2) { Some('Z') } else { None } };
            Some(json!(civil::render(t, st)))
        }
        4 => {
            // a look-alike denoting an instant on the *good* side of now: only strict parsing rejects it
            let t = (now + dir * r.range(DAY, 365 * DAY)).clamp(T_1971, t_9000() - 1);
            Some(json!(near_miss_timestamp(r, t)))
        }
        _ => {
            let d = delta(r, now);
            let t = (now + d).clamp(T_1971, t_9000() - 1);
            let good = (t - now) * dir > 0;
            let st = if good || r.chance(2, 3) { canonical_style(r, t) } else { exotic_style(r, t) };
            Some(json!(civil::render(t, st)))
        }
    }
}

fn ticks(r: &mut Rng) -> Vec<Ns> {
    match r.below(10) {
        0 => vec![Ns(1)],
        1 => vec![Ns(NS)],
        2 => vec![Ns(2 * HOUR)],
        3 => vec![Ns(-NS)],
        4 => vec![Ns(r.range(0, 1_000_000))],
        _ => vec![],
    }
}

fn gen(ctx: &GenCtx, i: u64, prop: &str) -> Option<Run> {
    let mut r = run_rng(ctx, prop, i);
    let proto = if i < 8 { ALL_PROTOS[i as usize] } else { weighted_proto(&mut r) };
    let mut rb = RunBuilder::new(prop, "delayed-skewed-delivery", ctx.verif_seed, i);
    let key = rb.key(key_for(proto, &mut r));
    let slow = matches!(proto, Proto::V3P | Proto::V1P);
    let footer = if r.chance(1, 4) { Some(nonempty_text!(r, 6)) } else { None };
    let assertion = if proto.has_assertion() && r.chance(1, 4) { Some(nonempty_text!(r, 6)) } else { None };
    let now = gen_now(&mut r).clamp(T_1971 + 2 * DAY, t_9000() - 400 * DAY);
    // one run in five (a stream of its own, so that every other choice stays as it was): the footer is a JSON
    // object that itself has members named like the time claims, on the side that would let everything
    // through - the footer is authenticated text and no claim
    let mut r2 = run_rng(ctx, if prop == "C11" { "C11-footer" } else { "C12-footer" }, i);
    let footer = if r2.chance(1, 5) {
        let far_future = civil::render((now + 300 * DAY).clamp(T_1971, t_9000() - 1), civil::Style { offset_min: 0, frac_digits: 0, sep: 'T', zulu: Some('Z') });
        let far_past = civil::render((now - 300 * DAY).clamp(T_1971, t_9000() - 1), civil::Style { offset_min: 0, frac_digits: 0, sep: 'T', zulu: Some('Z') });
        let mut o = serde_json::Map::new();
        o.insert("kid".into(), json!("key-7"));
        match r2.below(4) {
            0 => {
                o.insert("exp".into(), json!(far_future));
                o.insert("nbf".into(), json!(far_past));
            }
            1 => {
                o.insert("exp".into(), Value::Null);
                o.insert("nbf".into(), Value::Null);
            }
            2 => {
                o.insert(if prop == "C11" { "exp" } else { "nbf" }.into(), json!(if prop == "C11" { far_future } else { far_past }));
            }
            _ => {
                o.insert("exp".into(), json!(far_future));
                o.insert("nbf".into(), json!(far_past));
                o.insert("iat".into(), json!(far_past));
                o.insert("data".into(), json!("x"));
            }
        }
        Some(Value::Object(o).to_string())
    } else {
        footer
    };
    // the verifier under test and its control
    // one run in six: the default parser additionally gets check_claim(exp|nbf = v); a token carrying
    // exactly v is then still subject to the time rule (v expired / not yet valid => rejected)
    let pinned: Option<(bool, String, i128)> = if i % 6 == 5 {
        let is_exp = prop == "C11";
        let t = if is_exp { now - r.range(2 * NS, 400 * DAY) } else { now + r.range(60 * NS, 400 * DAY) };
        let t = t - t.rem_euclid(NS);
        Some((is_exp, render_canonical_t(&mut r, t), t))
    } else {
        None
    };
    // one run in four: the default parser also carries ordinary expectations about OTHER claims, which every
    // token of the run satisfies; the time rules stay in force
    let sat: Vec<ClaimSpec> = if pinned.is_none() && i % 4 == 1 {
        let mut s = vec![ClaimSpec::Aud("svc".into())];
        if r.chance(1, 2) {
            s.push(ClaimSpec::Custom { key: "tenant".into(), value: json!(7) });
        }
        if r.chance(1, 2) {
            s.push(ClaimSpec::Iss("issuer".into()));
        }
        s
    } else {
        vec![]
    };
    let expect = match &pinned {
        Some((true, s, _)) => vec![ClaimSpec::Exp(s.clone())],
        Some((false, s, _)) => vec![ClaimSpec::Nbf(s.clone())],
        None => sat.clone(),
    };
    let vspec = VerifierSpec { proto, layer: Layer::Batteries, key, footer: footer.clone(), assertion: assertion.clone(), default_validators: true, expect, expect_via_extend: false, validators: vec![], hash_seed: r.next() };
    let control = VerifierSpec { layer: Layer::Generic, default_validators: false, ..vspec.clone() };
    let v = rb.verifier(vspec);
    let n = if slow { 3 } else { 6 + r.usize(20) };
    for k in 0..n {
        if k % 5 == 4 {
            // a PasetoBuilder token whose lifetime is crossed by delay / skew
            let created = now - r.range(0, 2 * HOUR);
            let opts = IssueOpts { proto, layer: Layer::Batteries, key, footer: footer.clone(), assertion: assertion.clone(), now: created, message: "m".into(), json_payload: None, extra_claims: sat.clone() };
            let t = issue(&mut rb, &mut r, opts);
            let at = match r.below(8) {
                0 => created,
                1 => created + 1,
                2 => created + HOUR - 1,
                3 => created + HOUR,
                4 => created + HOUR + 1,
                5 => created - r.range(1, HOUR),
                _ => created + r.range(0, 2 * HOUR),
            };
            rb.push(Op::Deliver { msg: t.msg, to: v, now_ns: Ns(at), ticks: ticks(&mut r), twin: false, control: Some(Box::new(control.clone())), key: None });
            continue;
        }
        let mut payload = serde_json::Map::new();
        payload.insert("data".into(), json!(ascii!(r, r.usize(12))));
        for c in &sat {
            payload.insert(c.key().to_string(), c.value());
        }
        // bias: the property under check gets the interesting member, the other one is mostly benign
        let (e, nb) = if prop == "C11" {
            (member(&mut r, now, 1), if r.chance(1, 3) { member(&mut r, now, -1) } else if r.chance(1, 2) { None } else { Some(json!(render_canonical(&mut r, now - DAY))) })
        } else {
            (if r.chance(1, 3) { member(&mut r, now, 1) } else if r.chance(1, 2) { None } else { Some(json!(render_canonical(&mut r, now + DAY))) }, member(&mut r, now, -1))
        };
        if let Some(x) = e {
            payload.insert("exp".into(), x);
        }
        if let Some(x) = nb {
            // sometimes the token also says it was ISSUED at (or after) its nbf - which changes nothing
            if r.chance(1, 4) {
                payload.insert("iat".into(), if r.chance(1, 2) { x.clone() } else { json!(render_canonical(&mut r, now + 2 * DAY)) });
            }
            payload.insert("nbf".into(), x);
        }
        if let Some((is_exp, s, _)) = &pinned {
            if k % 2 == 0 {
                payload.insert(if *is_exp { "exp" } else { "nbf" }.into(), json!(s));
            }
        }
        if k == 1 && r.chance(1, 2) {
            // the instant the library's own placeholder claims carry
            payload.insert("exp".into(), json!("2019-01-01T00:00:00+00:00"));
        }
        let opts = IssueOpts { proto, layer: Layer::Core, key, footer: footer.clone(), assertion: assertion.clone(), now, message: String::new(), json_payload: Some(Value::Object(payload)), extra_claims: vec![] };
        let t = issue(&mut rb, &mut r, opts);
        rb.push(Op::Deliver { msg: t.msg, to: v, now_ns: Ns(now), ticks: ticks(&mut r), twin: k == 0, control: Some(Box::new(control.clone())), key: None });
    }
    Some(rb.finish())
}
