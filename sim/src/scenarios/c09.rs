//! C09 — untrusted token text can never crash the caller.
//! Scenario `byzantine-sender` + `torn-delivery` (DESIGN §7/C09).

use super::common::*;
use super::run_rng;
use crate::faults::b64;
use crate::gen::*;
use crate::model::*;
use crate::oracle;
use crate::runner::Scenario;

pub static SCENARIO: Scenario = Scenario {
    property: "C09",
    level: "fault_enumeration",
    rule: "byzantine sender / torn delivery against all 24 entry points with valid keys. Enumerated completely: each of the 8 correct headers followed by base64url of every decoded length 0..=400 (zeros / ones / seeded random; without footer, with the expected footer, with a trailing dot); every string of 0..6 segments over {empty, valid b64, invalid b64, padded b64} and header+0..4 such segments; Key::<N>::try_from for N in {24,32,48,49,64} on every hex length 0..=200 plus non-hex text. Authentic tokens whose exp/nbf/iat claims carry extreme or malformed values (year 0000/9999 with extreme offsets, leap seconds, impossible dates, 100 kB strings, 1e308, deeply nested JSON) parsed at extreme simulated instants. The event lists of the other scenario families (channel faults, mis-deliveries, expectation/validator configurations, builder histories) are borrowed and judged for crash freedom only. Sampled: every proper prefix of authentic tokens of every protocol/layer, arbitrary Unicode strings, large inputs, channel-fault outputs. A case is non-trivial when the string is not an authentic token for the verifier; distinct = distinct abstract traces (sequence of (op kind, fault kind, protocol, layer, verdict class, clause)).",
    runs: |t| match t {
        Tier::Quick => 72 + 24 + 5 + 24 + 21 + 400 + 1_100 + 800,
        Tier::Thorough => 72 + 24 + 5 + 24 + 21 + 20_000 + 66_000 + 60_000,
    },
    gen,
    judge: |run, obs| oracle::judge("C09", run, obs),
    assumptions: &[
        "keys handed to the entry points are valid (the property is about token text)",
        "a panic is observed with catch_unwind; aborts (stack overflow, OOM) would kill the harness and surface as exit 2",
    ],
    exhaustive: &["8 headers x decoded lengths 0..=400 x {zeros, ones, random} x {no footer, expected footer, trailing dot} x 3 layers", "all strings of 0..6 segments over 4 segment kinds, and header + 0..4 segments, x 8 protocols x 3 layers", "Key::<N>::try_from for N in {24,32,48,49,64} x every hex length 0..=200", "per sampled token: every proper prefix"],
};

fn verifiers_for(rb: &mut RunBuilder, r: &mut crate::prng::Rng, proto: Proto, footer: Option<String>) -> Vec<u32> {
    // v1.public verifiers also get RSA keys larger than 2048 bits (their signatures are longer than the
    // 256 bytes the protocol slices off)
    let kspec = if proto == Proto::V1P { KeySpec::Rsa { fixture: r.usize(crate::keys::RSA_FIXTURES.len()) } } else { key_for(proto, r) };
    let key = rb.key(kspec);
    let mut out = vec![];
    for layer in ALL_LAYERS {
        let spec = VerifierSpec {
            proto,
            layer,
            key,
            footer: footer.clone(),
            assertion: None,
            default_validators: layer == Layer::Batteries,
            expect: vec![],
            expect_via_extend: false,
            validators: vec![],
            hash_seed: r.next(),
        };
        out.push(rb.verifier(spec));
    }
    out
}

const SEG_KINDS: [&str; 4] = ["", "QUJD", "@@@", "QUI="];

fn gen(ctx: &GenCtx, i: u64) -> Option<Run> {
    let mut r = run_rng(ctx, "C09", i);
    let now = gen_now(&mut r);
    // ---- block A: correct header + every decoded length 0..=400
    if i < 72 {
        let proto = ALL_PROTOS[(i / 9) as usize];
        let fv = (i / 3) % 3;
        let content = i % 3;
        let mut rb = RunBuilder::new("C09", "byzantine-sender/header+length-sweep", ctx.verif_seed, i);
        let vs = verifiers_for(&mut rb, &mut r, proto, if fv == 1 { Some("foo".into()) } else { None });
        let maxlen = if proto == Proto::V1P { 600usize } else { 400 };
        for len in 0..=maxlen {
            let bytes = match content {
                0 => vec![0u8; len],
                1 => vec![0xffu8; len],
                _ => r.bytes(len),
            };
            let mut text = format!("{}{}", proto.header(), b64(&bytes));
            match fv {
                1 => text.push_str(".Zm9v"),
                2 => text.push('.'),
                _ => {}
            }
            let m = rb.msg();
            rb.push(Op::Literal { out: m, text });
            for v in &vs {
                rb.deliver(m, *v, now);
            }
        }
        return Some(rb.finish());
    }
    let i2 = i - 72;
    // ---- block B: segment combinations
    if i2 < 24 {
        let proto = ALL_PROTOS[(i2 / 3) as usize];
        let layer = ALL_LAYERS[(i2 % 3) as usize];
        let mut rb = RunBuilder::new("C09", "byzantine-sender/segment-combinations", ctx.verif_seed, i);
        let key = rb.key(key_for(proto, &mut r));
        let v = rb.verifier(VerifierSpec {
            proto,
            layer,
            key,
            footer: None,
            assertion: None,
            default_validators: layer == Layer::Batteries,
            expect: vec![],
            expect_via_extend: false,
            validators: vec![],
            hash_seed: 1,
        });
        let mut texts: Vec<String> = vec![];
        for n in 0..=6u32 {
            for code in 0..4u32.pow(n) {
                let mut c = code;
                let mut segs = vec![];
                for _ in 0..n {
                    segs.push(SEG_KINDS[(c % 4) as usize]);
                    c /= 4;
                }
                texts.push(segs.join("."));
            }
        }
        for n in 0..=4u32 {
            for code in 0..4u32.pow(n) {
                let mut c = code;
                let mut segs = vec![];
                for _ in 0..n {
                    segs.push(SEG_KINDS[(c % 4) as usize]);
                    c /= 4;
                }
                texts.push(format!("{}{}", proto.header(), segs.join(".")));
            }
        }
        for t in texts {
            let m = rb.msg();
            rb.push(Op::Literal { out: m, text: t });
            rb.deliver(m, v, now);
        }
        return Some(rb.finish());
    }
    let i3 = i2 - 24;
    // ---- block C: hex key strings
    if i3 < 5 {
        let n = [24usize, 32, 48, 49, 64][i3 as usize];
        let mut rb = RunBuilder::new("C09", "key-hex-length-sweep", ctx.verif_seed, i);
        for len in 0..=200usize {
            let text: String = (0..len).map(|_| b"0123456789abcdefABCDEF"[r.usize(22)] as char).collect();
            rb.push(Op::KeyParse { n, text });
        }
        for t in ["zz", "0g", "é", "00 ", " 00", "0x00", "--", "\0\0"] {
            rb.push(Op::KeyParse { n, text: t.to_string() });
            rb.push(Op::KeyParse { n, text: format!("{}{}", "ab".repeat(n - 1), t) });
        }
        // strings whose BYTE length is exactly 2n but that contain multi-byte characters at every
        // alignment (a parser that slices the text by byte offsets must not split a character)
        for ch in ["é", "中", "😀"] {
            for off in [0usize, 1, 2, 3, 2 * n - 5, 2 * n - 4] {
                let l = ch.len();
                if off + l > 2 * n {
                    continue;
                }
                let text = format!("{}{}{}", "a".repeat(off), ch, "0".repeat(2 * n - off - l));
                rb.push(Op::KeyParse { n, text });
            }
        }
        rb.push(Op::KeyParse { n, text: "00".repeat(n) });
        rb.push(Op::KeyParse { n, text: "0".repeat(2 * n + 1) });
        rb.push(Op::KeyParse { n, text: "0".repeat(100_000) });
        return Some(rb.finish());
    }
    let i3b = i3 - 5;
    // ---- block C2: authentic tokens whose claims carry extreme / odd values (the text is attacker-
    // chosen as far as the parser is concerned: an issuer with the key may write anything)
    if i3b < 24 {
        let proto = ALL_PROTOS[(i3b % 8) as usize];
        let mut rb = RunBuilder::new("C09", "byzantine-issuer/extreme-claims", ctx.verif_seed, i);
        let key = rb.key(key_for(proto, &mut r));
        const TS: [&str; 26] = [
            "9999-12-31T23:59:59Z", "9999-12-31T23:59:59-23:59", "9999-12-31T23:30:00-01:00", "9999-12-31T23:59:59.999999999-00:01",
            "0000-01-01T00:00:00Z", "0000-01-01T00:00:00+23:59", "0001-01-01T00:00:00+00:01", "0000-01-01T00:00:00.000000001+00:01",
            "2024-02-30T00:00:00Z", "2024-12-31T23:59:60Z", "2016-12-31T23:59:60Z", "2024-01-01T00:00:00.1234567890123456789Z",
            "2024-01-01T00:00:00.Z", "+2024-01-01T00:00:00Z", "-2024-01-01T00:00:00Z", "10000-01-01T00:00:00Z", "2024-01-01T00:00:00+99:99",
            "2024-01-01T00:00:00-00:00", "2024-13-01T00:00:00Z", "2024-00-00T00:00:00Z", "2024-01-01T24:00:00Z", "2024-01-01t00:00:00z",
            "2024-01-01 00:00:00Z", "", "Z", "9999-12-31T23:59:59+00:00",
        ];
        let nows = [
            gen_now(&mut r),
            crate::civil::ns_from_ymd_hms(9999, 12, 31, 23, 59, 58, 0),
            crate::civil::ns_from_ymd_hms(1, 1, 1, 0, 0, 0, 0),
            0,
            -1,
        ];
        let mut vs = vec![];
        for layer in [Layer::Batteries, Layer::Generic] {
            vs.push(rb.verifier(VerifierSpec { proto, layer, key, footer: None, assertion: None, default_validators: layer == Layer::Batteries, expect: vec![], expect_via_extend: false, validators: vec![], hash_seed: r.next() }));
        }
        for (k, ts) in TS.iter().enumerate() {
            let member = ["exp", "nbf", "iat"][(k + i3b as usize / 8) % 3];
            let mut o = serde_json::Map::new();
            o.insert(member.to_string(), serde_json::json!(ts));
            if r.chance(1, 3) {
                o.insert("exp".to_string(), serde_json::json!(*r.pick(&TS)));
                o.insert("nbf".to_string(), serde_json::json!(*r.pick(&TS)));
            }
            let out = rb.msg();
            rb.push(Op::CoreIssue { proto, key, nonce_hex: if proto.is_local() { nonce_for(proto, &mut r) } else { String::new() }, payload: serde_json::Value::Object(o).to_string(), footer: None, assertion: None, out, order: 0, rebuild: false });
            for v in &vs {
                rb.deliver(out, *v, *r.pick(&nows));
            }
        }
        // odd JSON shapes
        let deep_arr = format!("{}{}", "[".repeat(200), "]".repeat(200));
        let deep_obj = format!("{}1{}", "{\"a\":".repeat(150), "}".repeat(150));
        let long_str = format!("{{\"exp\":\"{}\"}}", "9".repeat(100_000));
        for p in [
            "null", "[]", "\"x\"", "0", "{}", "{\"exp\":1e308}", "{\"exp\":-1e308}", "{\"exp\":18446744073709551616}", "{\"nbf\":-9223372036854775808}",
            "{\"exp\":{\"exp\":{}}}", "{\"exp\":[[[[]]]]}", "{\"exp\":\"\\u0000\"}", "{\"exp\":\"\\ud800\"}", "{\"exp\":\"2024-01-01T00:00:00Z\",\"exp\":1}",
            deep_arr.as_str(), deep_obj.as_str(), long_str.as_str(), "{\"exp\" \"x\"}", "{", "\u{feff}{}",
            // the empty message and other payloads too short to be JSON, authentic all the same
            "", " ", "\n", "\t{}", "[", "n", "t", "\"", "-", "1e", "{\"a\"", "\u{0}", "}", "é",
        ] {
            let out = rb.msg();
            rb.push(Op::CoreIssue { proto, key, nonce_hex: if proto.is_local() { nonce_for(proto, &mut r) } else { String::new() }, payload: p.to_string(), footer: None, assertion: None, out, order: 0, rebuild: false });
            for v in &vs {
                rb.deliver(out, *v, nows[0]);
            }
        }
        return Some(rb.finish());
    }
    let i3c = i3b - 24;
    // ---- block C3: a foreign issuer (own protocol code, same key) whose authentic tokens carry bytes no
    // `&str` API can produce: the verifiers' decode step is reached with non-UTF-8 plaintext
    if i3c < 21 {
        const FP: [Proto; 7] = [Proto::V1L, Proto::V2L, Proto::V3L, Proto::V4L, Proto::V2P, Proto::V4P, Proto::V3P];
        let proto = FP[(i3c % 7) as usize];
        let mut rb = RunBuilder::new("C09", "foreign-issuer/any-bytes", ctx.verif_seed, i);
        let key = rb.key(key_for(proto, &mut r));
        let footer = match i3c / 7 {
            0 => None,
            1 => Some("kid-7".to_string()),
            _ => Some(nonempty_text!(r, 12)),
        };
        let assertion = if proto.has_assertion() && i3c / 7 == 2 { Some(nonempty_text!(r, 8)) } else { None };
        let mut vs = vec![];
        for layer in ALL_LAYERS {
            vs.push(rb.verifier(VerifierSpec { proto, layer, key, footer: footer.clone(), assertion: assertion.clone(), default_validators: layer == Layer::Batteries, expect: vec![], expect_via_extend: false, validators: vec![], hash_seed: r.next() }));
        }
        let mut payloads: Vec<Vec<u8>> = vec![
            // sanity: well-formed payloads (the probes show that foreign tokens authenticate)
            b"{\"data\":\"hello\"}".to_vec(),
            b"plain text".to_vec(),
            vec![],
            // not UTF-8
            vec![0xff],
            vec![0xc3],
            vec![0xc3, 0x28],
            vec![0xe2, 0x82],
            vec![0xf0, 0x9f, 0x98],
            vec![0xed, 0xa0, 0x80],
            vec![0xc0, 0xaf],
            vec![0xf8, 0x88, 0x80, 0x80, 0x80],
            vec![0x80],
            b"{\"data\":\"\xff\"}".to_vec(),
            b"{\"exp\":\"2999-01-01T00:00:00Z\xc3\"}".to_vec(),
            [b"{\"a\":\"".to_vec(), vec![0xf0, 0x9f], b"\"}".to_vec()].concat(),
            [vec![b'a'; 4095], vec![0xe4, 0xb8]].concat(),
            [vec![0xffu8], vec![b'{'; 64]].concat(),
            vec![0u8; 17],
            vec![0xfe, 0xff, 0x00, 0x7b, 0x00, 0x7d],
        ];
        for _ in 0..12 {
            let l = 1 + r.usize(80);
            payloads.push(r.bytes(l));
        }
        for p in payloads {
            let out = rb.msg();
            rb.push(Op::ForeignIssue { proto, key, nonce_hex: hex::encode(r.bytes(32)), payload_hex: hex::encode(&p), footer: footer.clone(), assertion: assertion.clone(), out });
            for v in &vs {
                rb.deliver(out, *v, now);
            }
            // and a torn copy of it
            if r.chance(1, 3) {
                let m = rb.fault(out, FaultKind::Truncate { n: 10 + r.usize(60) }, None);
                rb.deliver(m, vs[r.usize(3)], now);
            }
        }
        return Some(rb.finish());
    }
    let i4 = i3c - 21;
    let n_prefix = if ctx.tier == Tier::Quick { 400 } else { 20_000 };
    // ---- block D: every proper prefix of an authentic token (torn delivery)
    if i4 < n_prefix {
        let proto = if i4 < 8 { ALL_PROTOS[i4 as usize] } else { weighted_proto(&mut r) };
        let layer = random_layer(&mut r);
        let mut rb = RunBuilder::new("C09", "torn-delivery/all-prefixes", ctx.verif_seed, i);
        let key = rb.key(key_for(proto, &mut r));
        let footer = gen_opt_text(&mut r).map(|f| f.chars().take(20).collect::<String>());
        let assertion = if proto.has_assertion() { gen_opt_text(&mut r).map(|f| f.chars().take(20).collect::<String>()) } else { None };
        let mlen = r.usize(60);
        let opts = IssueOpts {
            proto,
            layer,
            key,
            footer,
            assertion,
            now,
            message: text!(r, mlen),
            json_payload: if layer == Layer::Core && r.chance(1, 2) { Some(serde_json::json!({"data": ascii!(r, mlen)})) } else { None },
            extra_claims: vec![],
        };
        let t = issue(&mut rb, &mut r, opts);
        let vlayer = random_layer(&mut r);
        let mut spec = plain_spec(&t, vlayer);
        spec.default_validators = vlayer == Layer::Batteries;
        let v = rb.verifier(spec);
        // token length is unknown until execution: emit cut points up to a generous bound; cuts beyond
        // the token are "not applicable" faults and cost nothing
        let bound = 80 + (mlen * 4) / 3 * 2 + proto.tail_len() * 4 / 3 + proto.nonce_len() * 4 / 3 + 40 + 30;
        for n in 0..bound {
            let m = rb.fault(t.msg, FaultKind::Truncate { n }, None);
            rb.deliver(m, v, now + 1_000_000);
        }
        return Some(rb.finish());
    }
    // ---- block F: the event lists of every other scenario family, judged for crash freedom only: every
    // channel-fault output, mis-delivery, expectation/validator configuration and builder history those
    // families produce is also "some token text handed to some entry point"
    let i5 = i4 - n_prefix;
    let n_borrow = if ctx.tier == Tier::Quick { 1_100 } else { 66_000 };
    if i5 < n_borrow {
        let fams: [&crate::runner::Scenario; 11] = [
            &super::c03::SCENARIO, &super::c04::SCENARIO, &super::c05::C05, &super::c05::C06, &super::c07::SCENARIO, &super::c11::C11,
            &super::c11::C12, &super::c13::C17, &super::c14::SCENARIO, &super::c15::C15, &super::c15::C16,
        ];
        let f = fams[(i5 % 11) as usize];
        let mut run = (f.gen)(ctx, 1_000_000 + i5 / 11)?;
        run.scenario = format!("borrowed:{}:{}", f.property, run.scenario);
        run.property = "C09".into();
        run.run = i;
        return Some(run);
    }
    // ---- block E: arbitrary strings
    let mut rb = RunBuilder::new("C09", "byzantine-sender/arbitrary-text", ctx.verif_seed, i);
    let proto = random_proto(&mut r);
    let vfooter = match r.below(6) {
        0 | 1 => Some(nonempty_text!(r, 8)),
        2 => Some("foo".to_string()),
        _ => None,
    };
    let vs = verifiers_for(&mut rb, &mut r, proto, vfooter);
    let n = 1 + r.usize(20);
    for _ in 0..n {
        let text = match r.below(10) {
            0 => {
                let l = gen_len(&mut r, true);
                text!(r, l)
            }
            1 => {
                // correct header, random larger decoded length
                let l = if ctx.tier == Tier::Thorough && r.chance(1, 20) { 1 << 20 } else { 401 + r.usize(65_536) };
                format!("{}{}", proto.header(), b64(&r.bytes(l)))
            }
            2 => format!("{}{}", proto.header(), text!(r, 1 + r.usize(40))),
            3 => {
                let hdr = random_proto(&mut r).header();
                let l = r.usize(300);
                format!("{}{}.{}", hdr, b64(&r.bytes(l)), b64(&r.bytes_upto(20)))
            }
            4 if r.chance(1, 3) => ".".repeat(r.usize(40)),
            4 if r.chance(1, 2) => {
                // many segments (beyond any small fixed number a parser might reserve room for)
                let n = 1 + r.usize(24);
                let segs: Vec<&str> = (0..n).map(|_| *r.pick(&["", "QUJD", "@", "A", "v4", "local", "public"])).collect();
                if r.chance(1, 2) { format!("{}{}", proto.header(), segs.join(".")) } else { segs.join(".") }
            }
            4 => {
                // a body segment made of (or containing several) multi-byte characters: its length in
                // characters, in bytes and in base64 quanta all differ
                let ch = *r.pick(&["é", "€", "中", "😀", "ß€", "\u{fffd}"]);
                let n = 1 + r.usize(12);
                let pre = "A".repeat(r.usize(6));
                let f = if r.chance(1, 3) { format!(".{}", ch.repeat(1 + r.usize(4))) } else { String::new() };
                format!("{}{}{}{}{}", proto.header(), pre, ch.repeat(n), "A".repeat(r.usize(6)), f)
            }
            5 if r.chance(1, 2) => {
                // well-formed shape, a version that does not exist (or is spelt differently)
                let v = *r.pick(&["v0", "v5", "v6", "v7", "v8", "v9", "v10", "v255", "v", "V4", "v٤", "v-1", "v04", "4", "v4 "]);
                let p = *r.pick(&["local", "public", "Local", "secret", ""]);
                let l = r.usize(120);
                let f = if r.chance(1, 2) { ".Zm9v" } else { "" };
                format!("{}.{}.{}{}", v, p, b64(&r.bytes(l)), f)
            }
            5 => format!("{}{}", proto.header(), "A".repeat(r.usize(600))),
            6 => {
                // header with different case / whitespace
                let h = proto.header().to_uppercase();
                format!("{}{}", h, b64(&r.bytes_upto(200)))
            }
            7 => format!(" {}{}", proto.header(), b64(&r.bytes_upto(200))),
            8 => {
                let l = r.usize(200);
                format!("{}{}=", proto.header(), b64(&r.bytes(l)))
            }
            _ => {
                let l = r.usize(120);
                let mut s = format!("{}{}", proto.header(), b64(&r.bytes(l)));
                // sprinkle a multi-byte char somewhere
                let pos = r.usize(s.len() + 1);
                s.insert(pos, *r.pick(&['é', '中', '😀', '\0', '.']));
                s
            }
        };
        let m = rb.msg();
        rb.push(Op::Literal { out: m, text });
        for v in &vs {
            rb.deliver(m, *v, now);
        }
    }
    Some(rb.finish())
}
