//! Scenario families, one per claimed property (DESIGN §7).

use crate::gen::*;
use crate::prng::{self, Rng};
use crate::runner::Scenario;

pub mod c01;
pub mod c03;
pub mod c04;
pub mod c05;
pub mod c07;
pub mod c09;
pub mod c10;
pub mod c11;
pub mod c13;
pub mod c14;
pub mod c15;
pub mod common;

pub fn run_rng(ctx: &GenCtx, property: &str, run: u64) -> Rng {
    Rng::new(prng::mix(&[ctx.verif_seed, prng::str_hash(property), run]))
}

pub fn all() -> Vec<&'static Scenario> {
    vec![
        &c01::C01,
        &c01::C02,
        &c03::SCENARIO,
        &c04::SCENARIO,
        &c05::C05,
        &c05::C06,
        &c07::SCENARIO,
        &c09::SCENARIO,
        &c10::SCENARIO,
        &c11::C11,
        &c11::C12,
        &c13::C13,
        &c13::C17,
        &c14::SCENARIO,
        &c15::C15,
        &c15::C16,
    ]
}

pub fn lookup(p: &str) -> Option<&'static Scenario> {
    all().into_iter().find(|s| s.property == p)
}
