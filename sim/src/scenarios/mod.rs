//! Scenario families, one per claimed property (DESIGN §7).

use crate::gen::*;
use crate::model::*;
use crate::prng::{self, Rng};
use crate::runner::Scenario;

pub mod common;
pub mod c09;

pub fn run_rng(ctx: &GenCtx, property: &str, run: u64) -> Rng {
    Rng::new(prng::mix(&[ctx.verif_seed, prng::str_hash(property), run]))
}

pub fn all() -> Vec<&'static Scenario> {
    vec![&c09::SCENARIO]
}

pub fn lookup(p: &str) -> Option<&'static Scenario> {
    all().into_iter().find(|s| s.property == p)
}

#[allow(unused_imports)]
use {BOp as _, Layer as _};
