//! C14 — parsed claims equal the claims that were set.  Scenario `claim-history` on GenericBuilder.

use super::common::*;
use super::run_rng;
use crate::gen::*;
use crate::model::*;
use crate::oracle;
use crate::runner::Scenario;

pub static SCENARIO: Scenario = Scenario {
    property: "C14",
    level: "exploration",
    rule: "claim-history on GenericBuilder for every protocol: a sequence (length <= 12 quick, <= 40 thorough) of set_claim / remove_claim over a small pool of keys (so that overwrites and removals of live keys happen; keys: non-empty Unicode incl. escapes, quotes, non-BMP, keys equal to nested member names, registered keys through the seven typed constructors) and values (JSON trees to depth 5: strings with any Unicode, i64/u64 extremes, booleans, null, k/2^j floats, arrays, objects; native Rust values through Serialize: integers, String, Option, Vec, tuple, map, unit, a derived nested struct), then build, clean delivery and read-back through a validator-free GenericParser under a seeded hash order. Reference model: BTreeMap with last-write-wins and removal. Oracle: the returned JSON object equals the model exactly. No fault or time dimension: this is the 'operations against the implementation and an in-memory map' pattern. Non-trivial = history with >= 2 operations; distinct = distinct abstract traces.",
    runs: |t| match t {
        Tier::Quick => 60_000,
        Tier::Thorough => 3_000_000,
    },
    gen,
    judge: |run, obs| oracle::judge("C14", run, obs),
    assumptions: &["numbers are limited to those with an exact short decimal form (k/2^j), as the property states", "keys are non-empty (the builder documents that it ignores empty keys)"],
    exhaustive: &[],
};

fn gen(ctx: &GenCtx, i: u64) -> Option<Run> {
    let mut r = run_rng(ctx, "C14", i);
    let proto = match i % 16 {
        0 => Proto::V3P,
        1 => Proto::V1P,
        2 | 3 => Proto::V2P,
        4 | 5 => Proto::V4P,
        6 | 7 => Proto::V1L,
        8 | 9 => Proto::V2L,
        10..=12 => Proto::V3L,
        _ => Proto::V4L,
    };
    let mut rb = RunBuilder::new("C14", "claim-history", ctx.verif_seed, i);
    let now = gen_now(&mut r);
    let key = rb.key(key_for(proto, &mut r));
    let b = rb.builder_id();
    rb.push(Op::NewBuilder { b, proto, layer: Layer::Generic, now_ns: Ns(now), hash_seed: r.next() });
    let maxlen = if ctx.tier == Tier::Quick { 12 } else { 40 };
    let n = r.usize(maxlen + 1);
    // small key pool to force overwrite / remove of live keys
    let pool: Vec<String> = (0..1 + r.usize(5)).map(|_| gen_key(&mut r)).collect();
    let mut footer = None;
    let mut assertion = None;
    // a stream of its own for the payload previews, so that every other choice stays as it was
    let mut r2 = run_rng(ctx, "C14-preview", i);
    for _ in 0..n {
        if r2.chance(1, 5) {
            rb.push(Op::BuilderOp { b, op: BOp::PeekPayload });
        }
        if r2.chance(1, 5) {
            // keys related to a live key as text (dotted children, extensions, prefixes): setting or removing
            // one must not touch the other
            let base = r2.pick(&pool).clone();
            let rel = match r2.below(6) {
                0 => format!("{}.", base),
                1 => format!("{}.id", base),
                2 => format!("{}x", base),
                3 => format!("{}/0", base),
                4 => format!(".{}", base),
                _ => {
                    let n = base.chars().count();
                    let p: String = base.chars().take(std::cmp::max(1, n / 2)).collect();
                    p
                }
            };
            if r2.chance(1, 2) {
                rb.push(Op::BuilderOp { b, op: BOp::SetClaim(ClaimSpec::Custom { key: rel, value: serde_json::json!(r2.below(1000)) }) });
            } else {
                rb.push(Op::BuilderOp { b, op: BOp::RemoveClaim(if r2.chance(1, 2) { rel } else { base }) });
            }
        }
        match r.below(12) {
            0 | 1 => {
                let k = if r.chance(3, 4) { r.pick(&pool).clone() } else { r.pick(&["iss", "sub", "aud", "jti", "exp", "nbf", "iat", "nope"]).to_string() };
                rb.push(Op::BuilderOp { b, op: BOp::RemoveClaim(k) });
            }
            2 => {
                let f = nonempty_text!(r, 8);
                footer = Some(f.clone());
                rb.push(Op::BuilderOp { b, op: BOp::SetFooter(f) });
            }
            3 if proto.has_assertion() => {
                let a = nonempty_text!(r, 8);
                assertion = Some(a.clone());
                rb.push(Op::BuilderOp { b, op: BOp::SetAssertion(a) });
            }
            4 | 5 => {
                let c = gen_claim(&mut r, true, now);
                rb.push(Op::BuilderOp { b, op: BOp::SetClaim(c) });
            }
            6 => {
                let k = r.pick(&pool).clone();
                rb.push(Op::BuilderOp { b, op: BOp::SetClaim(ClaimSpec::Native { key: k, val: gen_native(&mut r) }) });
            }
            9 => {
                // GenericBuilder::extend_claims: several keys at once, bare values
                let mut m = std::collections::BTreeMap::new();
                for _ in 0..1 + r.usize(3) {
                    let k = if r.chance(1, 2) { r.pick(&pool).clone() } else { gen_key(&mut r) };
                    m.insert(k, gen_json(&mut r, 2));
                }
                rb.push(Op::BuilderOp { b, op: BOp::ExtendClaims(m) });
            }
            10 if r.chance(1, 2) => {
                let kind = *r.pick(&["iss", "sub", "aud", "jti", "exp", "nbf", "iat"]);
                rb.push(Op::BuilderOp { b, op: BOp::SetClaim(ClaimSpec::DefaultOf(kind.to_string())) });
            }
            8 => {
                let k = r.pick(&pool).clone();
                let mut v = gen_json(&mut r, 2);
                if let serde_json::Value::Object(o) = &v {
                    if o.len() == 1 && o.contains_key(&k) {
                        v = serde_json::json!([1]);
                    }
                }
                rb.push(Op::BuilderOp { b, op: BOp::SetClaim(if r.chance(1, 2) { ClaimSpec::Bare { key: k, value: v } } else { ClaimSpec::CustomRef { key: k, value: v } }) });
            }
            7 => {
                // a value that looks like the claim's own {key: value} envelope, possibly twice
                let k = r.pick(&pool).clone();
                let inner = gen_json(&mut r, 1);
                let mut v = serde_json::json!({ k.clone(): inner });
                if r.chance(1, 3) {
                    v = serde_json::json!({ k.clone(): v });
                }
                if r.chance(1, 4) {
                    v = serde_json::json!({ k.clone(): v, "other": 1 });
                }
                rb.push(Op::BuilderOp { b, op: BOp::SetClaim(ClaimSpec::Custom { key: k, value: v }) });
            }
            _ => {
                let k = r.pick(&pool).clone();
                let depth = 1 + r.below(5) as u32;
                rb.push(Op::BuilderOp { b, op: BOp::SetClaim(ClaimSpec::Custom { key: k, value: gen_json(&mut r, depth) }) });
            }
        }
    }
    if i % 40 == 39 {
        // scale: a few hundred distinct claims in one token (map growth and rehashing under the seeded hasher,
        // anything that keeps a fixed number of entries inline)
        let many = *r.pick(&[17usize, 33, 65, 129, 300]);
        for k in 0..many {
            let key_k = format!("k{:03}", k);
            let c = match k % 4 {
                0 => ClaimSpec::Custom { key: key_k, value: serde_json::json!(k) },
                1 => ClaimSpec::Native { key: key_k, val: NativeVal::Str(format!("v{}", k)) },
                2 => ClaimSpec::CustomRef { key: key_k, value: serde_json::json!([k, null]) },
                _ => ClaimSpec::Bare { key: key_k, value: serde_json::json!({"n": k}) },
            };
            rb.push(Op::BuilderOp { b, op: BOp::SetClaim(c) });
        }
        for k in (0..many).step_by(7) {
            rb.push(Op::BuilderOp { b, op: BOp::RemoveClaim(format!("k{:03}", k)) });
        }
    }
    if r2.chance(1, 3) {
        rb.push(Op::BuilderOp { b, op: BOp::PeekPayload });
    }
    let out = rb.msg();
    rb.push(Op::Build { b, key, out, entropy_seed: r.next(), entropy_fail: vec![], observe: false, now_ns: Ns(SENTINEL_NOW) });
    // the reading parser: usually plain; sometimes with accepting validators on keys the token may or may
    // not carry, sometimes PasetoParser::default() - none of which may alter the returned object
    let vlayer = if r.chance(1, 3) { Layer::Batteries } else { Layer::Generic };
    let mut validators = vec![];
    if r.chance(1, 4) {
        for k in ["zz_absent", "data"] {
            validators.push(ValidatorSpec { claim: ClaimSpec::Custom { key: k.into(), value: serde_json::json!("") }, behaviour: crate::env::Behaviour::Accept, via: Via::Validate });
        }
        if r.chance(1, 2) {
            validators.push(ValidatorSpec { claim: ClaimSpec::Custom { key: r.pick(&pool).clone(), value: serde_json::json!("") }, behaviour: crate::env::Behaviour::Accept, via: Via::Validate });
        }
    }
    let spec = VerifierSpec { proto, layer: vlayer, key, footer, assertion, default_validators: vlayer == Layer::Batteries && r.chance(1, 2), expect: vec![], expect_via_extend: false, validators, hash_seed: r.next() };
    let v = rb.verifier(spec);
    rb.deliver(out, v, now + 1000);
    Some(rb.finish())
}
