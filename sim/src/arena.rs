//! Per-run arena.  The library's parser/builder types tie every token, key, footer and claim string
//! to the object's own lifetime parameter (`parse(&mut self, token: &'a str, key: &'a K)`), and several
//! APIs want `'static`.  A run therefore allocates such values here and receives `&'static` references;
//! everything is freed when the arena is dropped at the end of the run.
//!
//! Safety contract (kept by `World`): every object holding a reference handed out by the arena is
//! dropped before the arena (the arena is the *last* field of `World`), and no such reference is stored
//! anywhere that outlives the run.

use std::cell::RefCell;

pub struct Arena {
    items: RefCell<Vec<(*mut u8, unsafe fn(*mut u8))>>,
}

unsafe fn drop_box<T>(p: *mut u8) {
    drop(Box::from_raw(p as *mut T));
}

impl Arena {
    pub fn new() -> Self {
        Arena { items: RefCell::new(Vec::new()) }
    }
    pub fn alloc<T: 'static>(&self, t: T) -> &'static T {
        let p = Box::into_raw(Box::new(t));
        self.items.borrow_mut().push((p as *mut u8, drop_box::<T>));
        // SAFETY: see module docs; the box is not moved or freed until the arena is dropped.
        unsafe { &*p }
    }
    pub fn str(&self, s: &str) -> &'static str {
        self.alloc::<String>(s.to_owned()).as_str()
    }
    pub fn bytes(&self, b: &[u8]) -> &'static [u8] {
        self.alloc::<Vec<u8>>(b.to_vec()).as_slice()
    }
    pub fn len(&self) -> usize {
        self.items.borrow().len()
    }
}

impl Drop for Arena {
    fn drop(&mut self) {
        let mut items = self.items.borrow_mut();
        while let Some((p, f)) = items.pop() {
            // SAFETY: each pointer came from Box::into_raw::<T> with the matching drop fn.
            unsafe { f(p) };
        }
    }
}
