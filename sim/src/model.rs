//! The replayable vocabulary: a `Run` is an explicit event list; executing it is a pure function of the
//! list and the code under test.  `VERIF_SEED` only matters to the generators that produce runs.

use crate::env::Behaviour;
use serde::{Deserialize, Serialize};
use serde_json::Value;

/// Nanoseconds since the Unix epoch; serialised as a decimal string (year 9000 exceeds i64 ns).
#[derive(Clone, Copy, Debug, PartialEq, Eq, PartialOrd, Ord, Hash, Default)]
pub struct Ns(pub i128);

impl Serialize for Ns {
    fn serialize<S: serde::Serializer>(&self, s: S) -> Result<S::Ok, S::Error> {
        s.serialize_str(&self.0.to_string())
    }
}
impl<'de> Deserialize<'de> for Ns {
    fn deserialize<D: serde::Deserializer<'de>>(d: D) -> Result<Self, D::Error> {
        let s = String::deserialize(d)?;
        s.parse::<i128>().map(Ns).map_err(serde::de::Error::custom)
    }
}

#[derive(Serialize, Deserialize, Clone, Copy, Debug, PartialEq, Eq, PartialOrd, Ord, Hash)]
pub enum Proto {
    V1L,
    V2L,
    V3L,
    V4L,
    V1P,
    V2P,
    V3P,
    V4P,
}

pub const ALL_PROTOS: [Proto; 8] =
    [Proto::V1L, Proto::V2L, Proto::V3L, Proto::V4L, Proto::V1P, Proto::V2P, Proto::V3P, Proto::V4P];
pub const LOCALS: [Proto; 4] = [Proto::V1L, Proto::V2L, Proto::V3L, Proto::V4L];

impl Proto {
    pub fn header(self) -> &'static str {
        match self {
            Proto::V1L => "v1.local.",
            Proto::V2L => "v2.local.",
            Proto::V3L => "v3.local.",
            Proto::V4L => "v4.local.",
            Proto::V1P => "v1.public.",
            Proto::V2P => "v2.public.",
            Proto::V3P => "v3.public.",
            Proto::V4P => "v4.public.",
        }
    }
    pub fn name(self) -> &'static str {
        let h = self.header();
        &h[..h.len() - 1]
    }
    pub fn is_local(self) -> bool {
        matches!(self, Proto::V1L | Proto::V2L | Proto::V3L | Proto::V4L)
    }
    pub fn has_assertion(self) -> bool {
        matches!(self, Proto::V3L | Proto::V4L | Proto::V3P | Proto::V4P)
    }
    /// bytes in front of the ciphertext (local) in the decoded payload
    pub fn nonce_len(self) -> usize {
        match self {
            Proto::V2L => 24,
            p if p.is_local() => 32,
            _ => 0,
        }
    }
    /// trailing tag (local) or signature (public) length in the decoded payload
    pub fn tail_len(self) -> usize {
        match self {
            Proto::V1L | Proto::V3L => 48,
            Proto::V4L => 32,
            Proto::V2L => 16,
            Proto::V1P => 256,
            Proto::V2P | Proto::V4P => 64,
            Proto::V3P => 96,
        }
    }
    /// is this protocol compiled into this binary?
    pub fn available(self) -> bool {
        match self {
            Proto::V1P | Proto::V2P | Proto::V4P => cfg!(feature = "set_a"),
            Proto::V3P => cfg!(feature = "set_b"),
            _ => true,
        }
    }
    pub fn available_list() -> Vec<Proto> {
        ALL_PROTOS.iter().cloned().filter(|p| p.available()).collect()
    }
    pub fn from_header_prefix(s: &str) -> Option<Proto> {
        ALL_PROTOS.iter().cloned().find(|p| s.starts_with(p.header()))
    }
}

#[derive(Serialize, Deserialize, Clone, Copy, Debug, PartialEq, Eq, PartialOrd, Ord, Hash)]
pub enum Layer {
    Core,
    Generic,
    Batteries,
}
pub const ALL_LAYERS: [Layer; 3] = [Layer::Core, Layer::Generic, Layer::Batteries];

#[derive(Serialize, Deserialize, Clone, Debug, PartialEq)]
pub enum KeySpec {
    /// 32-byte symmetric key (hex)
    Sym { hex: String },
    /// Ed25519 seed (hex, 32 bytes) -> secret = seed || public, public = 32 bytes
    Ed { seed_hex: String },
    /// P-384 secret scalar (hex, 48 bytes, big endian) -> compressed public point (49 bytes)
    P384 { scalar_hex: String },
    /// committed RSA-2048 fixture pair /verif/fixtures/rsa/k<i>.{pk8,pub.der}
    Rsa { fixture: usize },
    /// arbitrary bytes presented as a *public* key
    RawPublic { hex: String },
    /// arbitrary bytes presented as a *private* key (to make signing fail)
    RawPrivate { hex: String },
}

/// A claim as given to a builder (`set_claim`) or to a parser (`check_claim` / `validate_claim`).
#[derive(Serialize, Deserialize, Clone, Debug, PartialEq)]
pub enum ClaimSpec {
    Iss(String),
    Sub(String),
    Aud(String),
    Jti(String),
    Exp(String),
    Nbf(String),
    Iat(String),
    /// CustomClaim::try_from((key, serde_json::Value))
    Custom { key: String, value: Value },
    /// CustomClaim::try_from((key, <native Rust value>))
    Native { key: String, val: NativeVal },
    /// CustomClaim::try_from((&str key, serde_json::Value)) - the borrowed-key constructor
    CustomRef { key: String, value: Value },
    /// a caller-defined claim type (implements PasetoClaim) that serialises as the bare value, not as a
    /// {key: value} map
    Bare { key: String, value: Value },
    /// `<RegisteredClaim>::default()` for kind in iss|sub|aud|jti|exp|nbf|iat (the documented way to name a
    /// registered claim when attaching a validator)
    DefaultOf(String),
}

#[derive(Serialize, Deserialize, Clone, Debug, PartialEq)]
pub enum NativeVal {
    I64(i64),
    U64(u64),
    I32(i32),
    U8(u8),
    F64(f64),
    Bool(bool),
    Str(String),
    OptStr(Option<String>),
    VecI64(Vec<i64>),
    VecStr(Vec<String>),
    Unit,
    Tuple(i64, String, bool),
    Map(std::collections::BTreeMap<String, i64>),
    Rec(Rec),
    /// a value whose `Serialize` implementation reports an error (as a map with non-string keys or an
    /// integer beyond u64 does in serde_json): only ever used in parser registrations
    Unserialisable,
}

/// A derived-Serialize struct with nested members, for C14's "serialisable structs".
#[derive(Serialize, Deserialize, Clone, Debug, PartialEq)]
pub struct Rec {
    pub id: u64,
    pub name: String,
    pub tags: Vec<String>,
    pub flag: Option<bool>,
    pub inner: Option<Box<Rec>>,
}

impl NativeVal {
    pub fn to_json(&self) -> Value {
        match self {
            NativeVal::I64(x) => serde_json::to_value(x),
            NativeVal::U64(x) => serde_json::to_value(x),
            NativeVal::I32(x) => serde_json::to_value(x),
            NativeVal::U8(x) => serde_json::to_value(x),
            NativeVal::F64(x) => serde_json::to_value(x),
            NativeVal::Bool(x) => serde_json::to_value(x),
            NativeVal::Str(x) => serde_json::to_value(x),
            NativeVal::OptStr(x) => serde_json::to_value(x),
            NativeVal::VecI64(x) => serde_json::to_value(x),
            NativeVal::VecStr(x) => serde_json::to_value(x),
            NativeVal::Unit => serde_json::to_value(()),
            NativeVal::Tuple(a, b, c) => serde_json::to_value((a, b, c)),
            NativeVal::Map(x) => serde_json::to_value(x),
            NativeVal::Rec(x) => serde_json::to_value(x),
            NativeVal::Unserialisable => Ok(Value::Null),
        }
        .expect("harness: native value to json")
    }
}

impl ClaimSpec {
    pub fn is_unserialisable(&self) -> bool {
        matches!(self, ClaimSpec::Native { val: NativeVal::Unserialisable, .. })
    }
    pub fn key(&self) -> &str {
        match self {
            ClaimSpec::Iss(_) => "iss",
            ClaimSpec::Sub(_) => "sub",
            ClaimSpec::Aud(_) => "aud",
            ClaimSpec::Jti(_) => "jti",
            ClaimSpec::Exp(_) => "exp",
            ClaimSpec::Nbf(_) => "nbf",
            ClaimSpec::Iat(_) => "iat",
            ClaimSpec::Custom { key, .. } => key,
            ClaimSpec::Native { key, .. } => key,
            ClaimSpec::CustomRef { key, .. } => key,
            ClaimSpec::Bare { key, .. } => key,
            ClaimSpec::DefaultOf(k) => k,
        }
    }
    /// the JSON value this claim stands for
    pub fn value(&self) -> Value {
        match self {
            ClaimSpec::Iss(s)
            | ClaimSpec::Sub(s)
            | ClaimSpec::Aud(s)
            | ClaimSpec::Jti(s)
            | ClaimSpec::Exp(s)
            | ClaimSpec::Nbf(s)
            | ClaimSpec::Iat(s) => Value::String(s.clone()),
            ClaimSpec::Custom { value, .. } | ClaimSpec::CustomRef { value, .. } | ClaimSpec::Bare { value, .. } => value.clone(),
            ClaimSpec::Native { val, .. } => val.to_json(),
            ClaimSpec::DefaultOf(k) => match k.as_str() {
                "exp" | "nbf" | "iat" => Value::String("2019-01-01T00:00:00+00:00".into()),
                _ => Value::String(String::new()),
            },
        }
    }
}

#[derive(Serialize, Deserialize, Clone, Debug, PartialEq)]
pub enum BOp {
    /// GenericBuilder::extend_claims with a map key -> bare value
    ExtendClaims(std::collections::BTreeMap<String, Value>),
    SetClaim(ClaimSpec),
    RemoveClaim(String),
    Ack,
    SetFooter(String),
    SetAssertion(String),
    /// `GenericBuilder::build_payload_from_claims()` called directly between other calls (it must describe
    /// the claims set so far and leave the builder as it was)
    PeekPayload,
}

#[derive(Serialize, Deserialize, Clone, Debug, PartialEq)]
pub enum VOp {
    /// `check_claim(claim)` on the live parser (replaces an earlier expectation under the same key)
    CheckClaim(ClaimSpec),
    /// `validate_claim(claim, slot)` on the live parser
    ValidateClaim(ValidatorSpec),
    SetFooter(String),
    SetAssertion(String),
    /// set the footer / assertion to the first `n` bytes of the string last set with SetFooter /
    /// SetAssertion on this live object, passing a slice of the very same buffer (same pointer, other
    /// length; successive uses shrink and grow the slice over one backing buffer)
    SetFooterPrefixOfCurrent(usize),
    SetAssertionPrefixOfCurrent(usize),
}

#[derive(Serialize, Deserialize, Clone, Debug, PartialEq)]
pub enum Via {
    /// `validate_claim(claim, fn)`
    Validate,
    /// only through `extend_validation_claims` (no claim entry)  — GenericParser only
    ExtendOnly,
    /// `extend_check_claims` + `extend_validation_claims` — GenericParser only
    ExtendBoth,
}

#[derive(Serialize, Deserialize, Clone, Debug, PartialEq)]
pub struct ValidatorSpec {
    /// claim whose key the validator is registered under (value is a placeholder)
    pub claim: ClaimSpec,
    pub behaviour: Behaviour,
    pub via: Via,
}

#[derive(Serialize, Deserialize, Clone, Debug, PartialEq)]
pub struct VerifierSpec {
    pub proto: Proto,
    pub layer: Layer,
    pub key: usize,
    /// None = never set; Some("") = explicitly empty
    pub footer: Option<String>,
    pub assertion: Option<String>,
    /// Batteries layer: `PasetoParser::default()` (true) or `PasetoParser::new()` (false)
    #[serde(default)]
    pub default_validators: bool,
    #[serde(default)]
    pub expect: Vec<ClaimSpec>,
    /// expectations registered through `extend_check_claims` instead of `check_claim` (GenericParser)
    #[serde(default)]
    pub expect_via_extend: bool,
    #[serde(default)]
    pub validators: Vec<ValidatorSpec>,
    #[serde(default)]
    pub hash_seed: u64,
}

#[derive(Serialize, Deserialize, Clone, Debug, PartialEq)]
pub enum Seg {
    Payload,
    Footer,
}

#[derive(Serialize, Deserialize, Clone, Debug, PartialEq)]
pub enum FaultKind {
    /// flip bit `bit` of the decoded payload / footer segment
    BitFlip { seg: Seg, bit: usize },
    /// replace character at byte position `pos` of the token text (ASCII tokens) by `c`
    CharSubst { pos: usize, c: char },
    /// replace the base64url symbol at `pos` by the next symbol of the alphabet
    CharNext { pos: usize },
    /// keep the first `n` bytes of the token text
    Truncate { n: usize },
    /// append text
    Extend { text: String },
    /// append raw bytes to the decoded payload
    ExtendDecoded { seg: Seg, hex: String },
    InsertChar { pos: usize, c: char },
    DeleteChar { pos: usize },
    /// move k decoded bytes between payload and footer segments (k>0: payload tail -> footer head)
    ShiftPayloadFooter { k: i32 },
    /// rotate the decoded payload's tail region by moving the message/signature boundary:
    /// remove (k>0) or duplicate (k<0) |k| bytes right in front of the tail
    ShiftBodyTail { k: i32 },
    /// take part of `other` (same protocol & key): nonce | body | tail | footer
    Splice { part: SplicePart },
    /// set the unused trailing bits of the last base64 symbol of a segment
    TrailingBits { seg: Seg, bits: u8 },
    /// append '=' padding to a segment
    Pad { seg: Seg, n: usize },
    /// replace footer segment with base64(text)
    FooterReplace { text: String },
    DropFooter,
    AddFooter { text: String },
    /// add a trailing '.' (empty footer segment) — tolerated
    AddEmptyFooter,
    /// remove a trailing '.' — tolerated
    RemoveEmptyFooter,
    /// replace header by another protocol's header
    Relabel { to: Proto },
    /// v3.public: s -> n - s
    SigNegateS,
    /// one half of the signature (0 = r / R, 1 = s / S) overwritten: pattern 0 = zeros, 1 = 0xff…, 2 = the
    /// group order (P-384 n big-endian, Ed25519 L little-endian; random for RSA), 3 = order - 1
    SigFill { half: u8, pattern: u8 },
    /// the token's own header text inserted `n` more times right after the header
    RepeatHeader { n: u8 },
    /// the footer segment replaced by base64url of raw bytes (not necessarily UTF-8)
    FooterReplaceRaw { hex: String },
    /// overwrite `len` decoded bytes at `at` with seeded random bytes
    RandomEdit { seg: Seg, at: usize, hex: String },
    /// re-write a segment from the URL-safe to the standard base64 alphabet ('-' -> '+', '_' -> '/')
    AlphabetSwap { seg: Seg },
    /// public tokens without footer: the last `p` bytes X||Y of the *message* (|X| = 8) are cut off and a
    /// footer segment Y||X is added - the re-split that a length-prefix aliasing of period p cannot see
    RotateMsgTailToFooter { p: usize },
    /// channel-level, no content change
    Duplicate,
}

#[derive(Serialize, Deserialize, Clone, Debug, PartialEq)]
pub enum SplicePart {
    Nonce,
    Body,
    Tail,
    Footer,
}

#[derive(Serialize, Deserialize, Clone, Debug, PartialEq)]
pub enum Op {
    NewBuilder {
        b: u32,
        proto: Proto,
        layer: Layer,
        now_ns: Ns,
        /// seed of the builder's internal hash maps
        #[serde(default)]
        hash_seed: u64,
    },
    BuilderOp {
        b: u32,
        op: BOp,
    },
    Build {
        b: u32,
        key: usize,
        out: u32,
        entropy_seed: u64,
        #[serde(default)]
        entropy_fail: Vec<usize>,
        #[serde(default)]
        observe: bool,
        /// clock served if the build reads the clock (it must not): far-away sentinel
        #[serde(default)]
        now_ns: Ns,
    },
    CoreIssue {
        proto: Proto,
        key: usize,
        nonce_hex: String,
        payload: String,
        footer: Option<String>,
        assertion: Option<String>,
        out: u32,
        /// issue once, then call set_payload again on the SAME core builder object and issue again; the
        /// second token is the one that travels
        #[serde(default)]
        rebuild: bool,
        /// order of the core builder's setter calls: index into the 6 permutations of
        /// (set_payload, set_footer, set_implicit_assertion); 0 = payload, footer, assertion
        #[serde(default)]
        order: u8,
    },
    Fault {
        src: u32,
        out: u32,
        kind: FaultKind,
        #[serde(default)]
        other: Option<u32>,
    },
    /// a string that did not come from an issuer in this run (garbage, or a recorded token)
    Literal {
        out: u32,
        text: String,
    },
    /// an authentic token issued by the *other* feature-set binary (outbox exchange, DESIGN §4):
    /// its provenance is known to the model although this binary cannot issue it
    /// a token issued by the foreign issuer (src/foreign.rs): authentic under `key`, carrying exactly the
    /// bytes `payload_hex` (not necessarily UTF-8)
    ForeignIssue {
        proto: Proto,
        key: usize,
        nonce_hex: String,
        payload_hex: String,
        footer: Option<String>,
        assertion: Option<String>,
        out: u32,
    },
    /// C04, v3.public: key slot `slot` is overwritten with a public key RECOVERED from the signature of
    /// message `msg` (ECDSA signatures verify under two keys): the one that is not the signer's.  The signed
    /// message is taken as PAE(pk, h, m, f, i) (`with_pk`, the v3 layout) or PAE(h, m, f, i).
    RecoverKey { msg: u32, signer: usize, assertion: Option<String>, with_pk: bool, recid: u8, slot: usize },
    /// the entropy draws of the NEXT build are served from this recording (hex per draw): how a violation seen
    /// in the observe arm (real OS entropy) is turned into an exactly replayable run
    ScriptEntropy { draws: Vec<String> },
    /// observe arm of C10, concurrent callers: `threads` OS threads at once, each with its own builder of
    /// (proto, layer), issue `builds_each` tokens under one key and then draw `draws_each` random keys.  The
    /// interleaving is NOT decided by the simulator (the library has no synchronisation point to intercept):
    /// this only notices mutable state shared between caller threads; its verdict is statistical.
    ConcurrentIssuers { proto: Proto, layer: Layer, key: usize, threads: u32, builds_each: u32, draws_each: u32 },
    /// observe arm of C10: `n` direct draws from the library's random-key constructor (the one every local
    /// builder takes its nonce material from), real OS entropy passing through the hook unmodified
    DrawKeys { n: u32 },
    Imported {
        out: u32,
        text: String,
        proto: Proto,
        key: usize,
        payload: String,
        footer: Option<String>,
        assertion: Option<String>,
    },
    NewVerifier {
        v: u32,
        spec: VerifierSpec,
    },
    Deliver {
        msg: u32,
        to: u32,
        now_ns: Ns,
        #[serde(default)]
        ticks: Vec<Ns>,
        /// also deliver to a freshly constructed verifier with the same configuration
        #[serde(default)]
        twin: bool,
        /// also deliver to a freshly built control verifier in which the property-specific dimension is
        /// neutralised (DESIGN §5)
        #[serde(default)]
        control: Option<Box<VerifierSpec>>,
        /// present the token to the (long-lived) parser under this key instead of the verifier's own:
        /// `parse(token, key)` takes the key per call
        #[serde(default)]
        key: Option<usize>,
    },
    /// re-configure a live verifier (parser layers): the parser object stays, its configuration changes
    Reconfigure {
        v: u32,
        op: VOp,
    },
    /// Key::<N>::try_from(&str)
    KeyParse {
        n: usize,
        text: String,
    },
}

#[derive(Serialize, Deserialize, Clone, Debug, PartialEq)]
pub struct Run {
    pub v: u32,
    pub property: String,
    pub scenario: String,
    pub set: String,
    pub verif_seed: u64,
    pub run: u64,
    pub keys: Vec<KeySpec>,
    pub events: Vec<Op>,
}

// -------------------------------------------------------------------------------------------------
// Observations

#[derive(Serialize, Deserialize, Clone, Debug, PartialEq, Eq, PartialOrd, Ord, Hash)]
pub enum ErrClass {
    /// authentication / format / key errors raised before plaintext is handled
    Cipher,
    /// UTF-8 handling of decrypted plaintext
    Utf8,
    /// JSON deserialisation of the payload
    Json,
    /// claim expectation / validator error
    Claim,
    /// builder-only errors (duplicate claim, …)
    Builder,
    Other,
}

#[derive(Serialize, Deserialize, Clone, Debug, PartialEq)]
pub enum Outcome {
    OkStr(String),
    OkJson(Value),
    Err { class: ErrClass, variant: String, args: Vec<String> },
    Panic { at: String },
}

impl Outcome {
    pub fn is_ok(&self) -> bool {
        matches!(self, Outcome::OkStr(_) | Outcome::OkJson(_))
    }
    pub fn is_err(&self) -> bool {
        matches!(self, Outcome::Err { .. })
    }
    pub fn is_panic(&self) -> bool {
        matches!(self, Outcome::Panic { .. })
    }
    pub fn class_name(&self) -> String {
        match self {
            Outcome::OkStr(_) | Outcome::OkJson(_) => "Ok".into(),
            Outcome::Err { class, variant, .. } => format!("Err/{:?}/{}", class, variant),
            Outcome::Panic { .. } => "Panic".into(),
        }
    }
    pub fn verdict_class(&self) -> &'static str {
        match self {
            Outcome::OkStr(_) | Outcome::OkJson(_) => "Ok",
            Outcome::Err { class: ErrClass::Cipher, .. } => "Err/Cipher",
            Outcome::Err { class: ErrClass::Utf8, .. } => "Err/Utf8",
            Outcome::Err { class: ErrClass::Json, .. } => "Err/Json",
            Outcome::Err { class: ErrClass::Claim, .. } => "Err/Claim",
            Outcome::Err { class: ErrClass::Builder, .. } => "Err/Builder",
            Outcome::Err { .. } => "Err/Other",
            Outcome::Panic { .. } => "Panic",
        }
    }
    pub fn short(&self) -> String {
        match self {
            Outcome::OkStr(s) => format!("Ok(str,{}B)", s.len()),
            Outcome::OkJson(_) => "Ok(json)".into(),
            Outcome::Err { class, variant, args } => format!("Err({:?}::{}{:?})", class, variant, args),
            Outcome::Panic { at } => format!("Panic({})", at),
        }
    }
}

#[derive(Serialize, Deserialize, Clone, Debug, PartialEq)]
pub struct CallObs {
    pub slot: usize,
    pub key: String,
    pub value: Value,
    pub returned_ok: bool,
}

#[derive(Serialize, Deserialize, Clone, Debug, PartialEq)]
pub struct DrawObs {
    pub real_hex: String,
    pub served_hex: String,
    pub failed: bool,
}

#[derive(Serialize, Deserialize, Clone, Debug, PartialEq)]
pub struct DeliverObs {
    pub outcome: Outcome,
    pub calls: Vec<CallObs>,
    pub reads: Vec<(String, Ns)>,
}

#[derive(Serialize, Deserialize, Clone, Debug, PartialEq)]
pub enum Obs {
    Skipped(String),
    NewBuilder { reads: Vec<(String, Ns)>, panic: Option<String> },
    BuilderOp {
        applied: bool,
        panic: Option<String>,
        #[serde(default, skip_serializing_if = "Option::is_none")]
        peek: Option<Result<String, String>>,
    },
    Build { result: Outcome, draws: Vec<DrawObs>, reads: Vec<(String, Ns)> },
    Issue { result: Outcome },
    Fault { text: Option<String> },
    Literal,
    NewVerifier { ok: bool, notes: Vec<String> },
    Deliver { main: DeliverObs, twin: Option<DeliverObs>, control: Option<DeliverObs> },
    ForeignIssue { issued: bool },
    Concurrent { builds_ok: u32, builds_failed: u32, distinct_nonces: u32, distinct_tokens: u32, draws_ok: u32, distinct_draws: u32 },
    Scripted,
    RecoverKey { public_hex: Option<String> },
    Draws { ok: u32, failed: u32, distinct: u32, constant_positions: u32, worst_bit_dev_centisigma: u32 },
    Reconfigure { applied: bool },
    /// a prefix-of-current reconfiguration, resolved to the plain operation it amounted to
    ReconfigureResolved { applied: bool, as_op: VOp },
    KeyParse { outcome: Outcome },
}
