//! One integer decides everything: SplitMix64 seeding + xoshiro256** stream.  No external PRNG
//! crate, no global state.

#[inline]
pub fn splitmix(x: &mut u64) -> u64 {
    *x = x.wrapping_add(0x9e37_79b9_7f4a_7c15);
    let mut z = *x;
    z = (z ^ (z >> 30)).wrapping_mul(0xbf58_476d_1ce4_e5b9);
    z = (z ^ (z >> 27)).wrapping_mul(0x94d0_49bb_1331_11eb);
    z ^ (z >> 31)
}

/// Mixes several integers into one seed (used for run seed = H(VERIF_SEED, property, run_index)).
pub fn mix(parts: &[u64]) -> u64 {
    let mut s = 0x243f_6a88_85a3_08d3u64;
    for p in parts {
        s ^= *p;
        let _ = splitmix(&mut s);
        s = s.rotate_left(23) ^ splitmix(&mut s);
    }
    splitmix(&mut s)
}

pub fn str_hash(s: &str) -> u64 {
    let mut h = 0xcbf2_9ce4_8422_2325u64;
    for b in s.as_bytes() {
        h = (h ^ u64::from(*b)).wrapping_mul(0x0000_0100_0000_01b3);
    }
    h
}

#[derive(Clone, Debug)]
pub struct Rng {
    s: [u64; 4],
}

impl Rng {
    pub fn new(seed: u64) -> Self {
        let mut x = seed;
        let s = [splitmix(&mut x), splitmix(&mut x), splitmix(&mut x), splitmix(&mut x)];
        Rng { s }
    }
    #[inline]
    pub fn next(&mut self) -> u64 {
        let r = self.s[1].wrapping_mul(5).rotate_left(7).wrapping_mul(9);
        let t = self.s[1] << 17;
        self.s[2] ^= self.s[0];
        self.s[3] ^= self.s[1];
        self.s[1] ^= self.s[2];
        self.s[0] ^= self.s[3];
        self.s[2] ^= t;
        self.s[3] = self.s[3].rotate_left(45);
        r
    }
    /// uniform in 0..n (n > 0)
    pub fn below(&mut self, n: u64) -> u64 {
        debug_assert!(n > 0);
        // multiply-shift; bias is irrelevant for search purposes
        ((u128::from(self.next()) * u128::from(n)) >> 64) as u64
    }
    pub fn usize(&mut self, n: usize) -> usize {
        self.below(n as u64) as usize
    }
    /// inclusive range
    pub fn range(&mut self, lo: i128, hi: i128) -> i128 {
        debug_assert!(lo <= hi);
        let span = (hi - lo) as u128 + 1;
        let r = ((u128::from(self.next()) << 64) | u128::from(self.next())) % span;
        lo + r as i128
    }
    pub fn chance(&mut self, num: u64, den: u64) -> bool {
        self.below(den) < num
    }
    pub fn pick<'a, T>(&mut self, xs: &'a [T]) -> &'a T {
        &xs[self.usize(xs.len())]
    }
    pub fn bytes(&mut self, n: usize) -> Vec<u8> {
        let mut v = Vec::with_capacity(n);
        while v.len() < n {
            let x = self.next().to_le_bytes();
            let take = (n - v.len()).min(8);
            v.extend_from_slice(&x[..take]);
        }
        v
    }
    /// random bytes of random length < max
    pub fn bytes_upto(&mut self, max: usize) -> Vec<u8> {
        let n = self.usize(max.max(1));
        self.bytes(n)
    }
    pub fn fork(&mut self) -> Rng {
        Rng::new(self.next())
    }
}
