//! A foreign issuer: a peer that speaks PASETO with its own protocol code (composition of the primitives
//! written here from the specification, not the library's), used as one more party in the simulated
//! world.  It can put *any bytes* into an authentic token - in particular payloads that are not UTF-8,
//! which no issuer going through the library's `&str` API can produce - so the verifiers' decode step is
//! reached with input the library never generated itself.
//!
//! Its tokens are judged for crash freedom only (C09).  Whether the library *accepts* them is an
//! interoperability question (C08, not claimed); the acceptance count is reported as a probe so that the
//! evidence shows the foreign tokens really authenticate (and therefore really reach the decoder).

use crate::faults::b64;
use crate::keys::KeyMat;
use crate::model::Proto;

fn le64(n: usize) -> [u8; 8] {
    let mut b = (n as u64).to_le_bytes();
    b[7] &= 0x7f;
    b
}

pub fn pae(pieces: &[&[u8]]) -> Vec<u8> {
    let mut out = le64(pieces.len()).to_vec();
    for p in pieces {
        out.extend_from_slice(&le64(p.len()));
        out.extend_from_slice(p);
    }
    out
}

fn hkdf384(ikm: &[u8], salt: Option<&[u8]>, info: &[u8], len: usize) -> Vec<u8> {
    let hk = hkdf::Hkdf::<sha2::Sha384>::new(salt, ikm);
    let mut okm = vec![0u8; len];
    hk.expand(info, &mut okm).expect("hkdf length");
    okm
}

fn hmac384(key: &[u8], msg: &[u8]) -> Vec<u8> {
    use hmac::{Hmac, Mac};
    let mut m = <Hmac<sha2::Sha384> as Mac>::new_from_slice(key).expect("hmac key");
    m.update(msg);
    m.finalize().into_bytes().to_vec()
}

fn aes256ctr(key: &[u8], iv: &[u8], data: &mut [u8]) {
    use aes::cipher::generic_array::GenericArray;
    use aes::cipher::{NewCipher, StreamCipher};
    let mut c = aes::Aes256Ctr::new(GenericArray::from_slice(key), GenericArray::from_slice(iv));
    c.apply_keystream(data);
}

fn blake2b_keyed(key: &[u8], msg: &[u8], outlen: usize) -> Vec<u8> {
    use blake2::digest::consts::{U32, U56};
    use blake2::digest::{FixedOutput, KeyInit, Update};
    match outlen {
        56 => {
            let mut h = blake2::Blake2bMac::<U56>::new_from_slice(key).expect("blake2b key");
            h.update(msg);
            h.finalize_fixed().to_vec()
        }
        _ => {
            let mut h = blake2::Blake2bMac::<U32>::new_from_slice(key).expect("blake2b key");
            h.update(msg);
            h.finalize_fixed().to_vec()
        }
    }
}

fn xchacha20(key: &[u8], nonce: &[u8], data: &mut [u8]) {
    use chacha20::cipher::{KeyIvInit, StreamCipher};
    let mut c = chacha20::XChaCha20::new(key.into(), nonce.into());
    c.apply_keystream(data);
}

fn cat(a: &[u8], b: &[u8]) -> Vec<u8> {
    let mut v = a.to_vec();
    v.extend_from_slice(b);
    v
}

fn assemble(header: &str, body: &[u8], footer: Option<&str>) -> String {
    let mut t = format!("{}{}", header, b64(body));
    if let Some(f) = footer {
        if !f.is_empty() {
            t.push('.');
            t.push_str(&b64(f.as_bytes()));
        }
    }
    t
}

/// Issues a token for `proto` carrying exactly `payload` (any bytes).  `nonce` supplies the 32 nonce bytes
/// of the local protocols (v2 uses the first 24).  None when the key kind does not fit.
pub fn issue(proto: Proto, km: &KeyMat, nonce: &[u8; 32], payload: &[u8], footer: Option<&str>, assertion: Option<&str>) -> Option<String> {
    let h = proto.header();
    let f = footer.unwrap_or("").as_bytes();
    let i = assertion.unwrap_or("").as_bytes();
    match proto {
        Proto::V1L => {
            let key = km.sym()?;
            let ek = hkdf384(&key, Some(&nonce[..16]), b"paseto-encryption-key", 32);
            let ak = hkdf384(&key, Some(&nonce[..16]), b"paseto-auth-key-for-aead", 32);
            let mut c = payload.to_vec();
            aes256ctr(&ek, &nonce[16..], &mut c);
            let t = hmac384(&ak, &pae(&[h.as_bytes(), nonce, &c, f]));
            let mut body = nonce.to_vec();
            body.extend_from_slice(&c);
            body.extend_from_slice(&t);
            Some(assemble(h, &body, footer))
        }
        Proto::V2L => {
            use chacha20poly1305::aead::{Aead, KeyInit, Payload};
            let key = km.sym()?;
            let n = &nonce[..24];
            let aad = pae(&[h.as_bytes(), n, f]);
            let aead = chacha20poly1305::XChaCha20Poly1305::new((&key).into());
            let c = aead.encrypt(n.into(), Payload { msg: payload, aad: &aad }).ok()?;
            Some(assemble(h, &cat(n, &c), footer))
        }
        Proto::V3L => {
            let key = km.sym()?;
            let tmp = hkdf384(&key, None, &cat(b"paseto-encryption-key", nonce), 48);
            let ak = hkdf384(&key, None, &cat(b"paseto-auth-key-for-aead", nonce), 48);
            let mut c = payload.to_vec();
            aes256ctr(&tmp[..32], &tmp[32..], &mut c);
            let t = hmac384(&ak, &pae(&[h.as_bytes(), nonce, &c, f, i]));
            let mut body = nonce.to_vec();
            body.extend_from_slice(&c);
            body.extend_from_slice(&t);
            Some(assemble(h, &body, footer))
        }
        Proto::V4L => {
            let key = km.sym()?;
            let tmp = blake2b_keyed(&key, &cat(b"paseto-encryption-key", nonce), 56);
            let ak = blake2b_keyed(&key, &cat(b"paseto-auth-key-for-aead", nonce), 32);
            let mut c = payload.to_vec();
            xchacha20(&tmp[..32], &tmp[32..], &mut c);
            let t = blake2b_keyed(&ak, &pae(&[h.as_bytes(), nonce, &c, f, i]), 32);
            let mut body = nonce.to_vec();
            body.extend_from_slice(&c);
            body.extend_from_slice(&t);
            Some(assemble(h, &body, footer))
        }
        Proto::V2P | Proto::V4P => {
            use ed25519_dalek::Signer;
            let sk = km.private_for(proto)?;
            if sk.len() != 64 {
                return None;
            }
            let mut kp = [0u8; 64];
            kp.copy_from_slice(&sk);
            let sk = ed25519_dalek::SigningKey::from_keypair_bytes(&kp).ok()?;
            let m2 = if proto == Proto::V2P { pae(&[h.as_bytes(), payload, f]) } else { pae(&[h.as_bytes(), payload, f, i]) };
            let sig = sk.sign(&m2);
            Some(assemble(h, &cat(payload, &sig.to_bytes()), footer))
        }
        Proto::V3P => {
            use p384::ecdsa::signature::Signer;
            let sk = km.private_for(proto)?;
            let pk = km.public_for(proto)?;
            let sk = p384::ecdsa::SigningKey::from_slice(&sk).ok()?;
            let m2 = pae(&[&pk, h.as_bytes(), payload, f, i]);
            let sig: p384::ecdsa::Signature = sk.sign(&m2);
            Some(assemble(h, &cat(payload, &sig.to_bytes()), footer))
        }
        // RSA-PSS needs an RSA implementation of its own; v1.public payloads are reached through the
        // library-issued tokens only
        Proto::V1P => None,
    }
}

/// ECDSA public-key recovery for a v3.public token: the compressed public key, other than `signer_pk`
/// where possible, under which the token's signature verifies for the message layout chosen
/// (`with_pk`: PAE(pk, h, m, f, i) with pk = the signer's key; otherwise PAE(h, m, f, i)).
pub fn recover_p384(token: &str, signer_pk: &[u8], assertion: Option<&str>, with_pk: bool, recid: u8) -> Option<Vec<u8>> {
    use ecdsa::RecoveryId;
    use p384::ecdsa::{Signature, VerifyingKey};
    use p384::elliptic_curve::sec1::ToEncodedPoint;
    let t = crate::faults::Tok::parse(token)?;
    if t.proto()? != Proto::V3P || t.payload.len() < 96 {
        return None;
    }
    let (m, sig) = t.payload.split_at(t.payload.len() - 96);
    let f = t.footer.clone().unwrap_or_default();
    let i = assertion.unwrap_or("").as_bytes();
    let h = Proto::V3P.header();
    let m2 = if with_pk { pae(&[signer_pk, h.as_bytes(), m, &f, i]) } else { pae(&[h.as_bytes(), m, &f, i]) };
    let sig = Signature::from_slice(sig).ok()?;
    let mut found: Vec<Vec<u8>> = vec![];
    for id in 0..4u8 {
        if let Some(rid) = RecoveryId::from_byte(id) {
            if let Ok(vk) = VerifyingKey::recover_from_msg(&m2, &sig, rid) {
                let c = vk.to_encoded_point(true).as_bytes().to_vec();
                if c != signer_pk && !found.contains(&c) {
                    found.push(c);
                }
            }
        }
    }
    if found.is_empty() {
        None
    } else {
        Some(found[recid as usize % found.len()].clone())
    }
}
