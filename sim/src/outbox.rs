//! Outbox exchange (DESIGN §4): authentic public tokens this binary can issue, for the cross-set
//! protocol pairs of C07.  Deterministic in the seed (except v1.public signature bytes).

use crate::gen::*;
use crate::keys;
use crate::model::*;
use crate::prng::{self, Rng};
use crate::world;

pub fn emit(seed: u64) -> Vec<InboxToken> {
    let mut out = vec![];
    let mut r = Rng::new(prng::mix(&[seed, 0x0b0c]));
    for proto in [Proto::V1P, Proto::V2P, Proto::V3P, Proto::V4P] {
        if !proto.available() {
            continue;
        }
        for i in 0..24 {
            let key = key_for(proto, &mut r);
            let len = match i {
                0 => 0,
                1 => 1,
                2 => 31,
                3 => 63,
                4 => 64,
                5 => 95,
                6 => 96,
                7 => 200,
                8 => 255,
                9 => 256,
                _ => r.usize(400),
            };
            let payload = if i % 2 == 0 { text!(r, len) } else { serde_json::json!({"data": ascii!(r, len)}).to_string() };
            let footer = gen_opt_text(&mut r).map(|f| f.chars().take(16).collect::<String>());
            let assertion = if proto.has_assertion() { gen_opt_text(&mut r).map(|f| f.chars().take(16).collect::<String>()) } else { None };
            let km = keys::resolve(&key);
            if let Ok(Outcome::OkStr(text)) = world::core_issue(proto, &km, &[], &payload, footer.as_deref(), assertion.as_deref(), 0, false) {
                out.push(InboxToken { proto, key, payload, footer, assertion, text });
            }
        }
    }
    out
}
