//! The simulated environment installed behind the library's seams: clock, nonce entropy, hash seed.
//! Also the validator call log and the quiet panic hook.  Everything is thread-local: one simulated
//! world per worker thread, nothing shared.

use crate::prng::Rng;
use rusty_paseto::verif_hooks::{self, SimEnv};
use serde_json::Value;
use std::cell::RefCell;
use std::collections::{BTreeMap, BTreeSet};

#[derive(Clone, Debug, PartialEq, Eq)]
pub enum EntropyMode {
    /// simulator overwrites every draw with bytes derived from (seed, draw index)
    Simulate,
    /// real OS bytes pass through, only recorded
    Observe,
}

pub struct SimState {
    // ---- clock
    pub clock_base: i128,
    pub clock_ticks: Vec<i128>,
    pub clock_reads: Vec<(&'static str, i128)>,
    pub real_clock_reads: u64,
    /// per seam site: the last real reading the library handed to the seam, and the harness's own wall
    /// clock at that moment (staleness detector, see `now`)
    pub real_seen: BTreeMap<&'static str, (i128, i128)>,
    pub stale_reads: Vec<&'static str>,
    // ---- entropy
    pub entropy_mode: EntropyMode,
    pub entropy_seed: u64,
    pub entropy_fail: BTreeSet<usize>,
    pub entropy_draws: Vec<EntropyDraw>,
    /// recorded draws of an earlier (observe-arm) execution, served in order instead of anything else
    pub entropy_script: std::collections::VecDeque<Vec<u8>>,
    // ---- hash seeds
    /// every map the library creates while an object is constructed draws mix(hash_base, counter)
    pub hash_base: u64,
    pub hash_ctr: u64,
    pub hash_seeds_served: u64,
    // ---- validators
    pub validator_table: BTreeMap<usize, Behaviour>,
    pub validator_calls: Vec<ValidatorCall>,
    // ---- panic capture
    pub last_panic: Option<String>,
}

#[derive(Clone, Debug)]
pub struct EntropyDraw {
    pub site: &'static str,
    /// bytes the OS RNG had put in the buffer when the hook was reached
    pub real: Vec<u8>,
    /// bytes the library continues with (== real in observe mode)
    pub served: Vec<u8>,
    pub failed: bool,
}

#[derive(Clone, Debug, PartialEq, serde::Serialize, serde::Deserialize)]
pub enum Behaviour {
    Accept,
    Reject,
    /// accept iff the value passed equals this
    ExpectEq(Value),
    /// reject with a particular PasetoClaimError variant (Unexpected, Invalid, Missing, Expired,
    /// RFC3339Date, UseBeforeAvailable, Reserved, DuplicateTopLevelPayloadClaim, CustomValidation)
    RejectAs(String),
}

#[derive(Clone, Debug, PartialEq)]
pub struct ValidatorCall {
    pub slot: usize,
    pub key: String,
    pub value: Value,
    pub returned_ok: bool,
}

impl SimState {
    fn new() -> Self {
        SimState {
            clock_base: 0,
            clock_ticks: vec![],
            clock_reads: vec![],
            real_clock_reads: 0,
            real_seen: BTreeMap::new(),
            stale_reads: vec![],
            entropy_mode: EntropyMode::Simulate,
            entropy_seed: 0,
            entropy_fail: BTreeSet::new(),
            entropy_draws: vec![],
            entropy_script: std::collections::VecDeque::new(),
            hash_base: 0,
            hash_ctr: 0,
            hash_seeds_served: 0,
            validator_table: BTreeMap::new(),
            validator_calls: vec![],
            last_panic: None,
        }
    }
}

thread_local! {
    pub static SIM: RefCell<SimState> = RefCell::new(SimState::new());
}

pub fn with<R>(f: impl FnOnce(&mut SimState) -> R) -> R {
    SIM.with(|s| f(&mut s.borrow_mut()))
}

struct Forwarder;

impl SimEnv for Forwarder {
    fn now(&mut self, real_unix_ns: i128, site: &'static str) -> i128 {
        with(|s| {
            // The seam sits at the place where the reading is USED.  A library that takes the reading
            // somewhere else (once, at construction, say) and keeps the seam line where it was would be
            // served the simulated time as if nothing had happened.  It gives itself away: it hands the seam
            // the very same real reading again although the wall clock has visibly moved on.
            let own = std::time::SystemTime::now().duration_since(std::time::UNIX_EPOCH).map_or(0, |d| d.as_nanos() as i128);
            if let Some((prev_real, prev_own)) = s.real_seen.get(site) {
                if *prev_real == real_unix_ns && own > *prev_own + 20_000 {
                    s.stale_reads.push(site);
                }
            }
            s.real_seen.insert(site, (real_unix_ns, own));
            let k = s.clock_reads.len();
            let mut t = s.clock_base;
            for d in s.clock_ticks.iter().take(k) {
                t += *d;
            }
            s.clock_reads.push((site, t));
            s.real_clock_reads += 1;
            t
        })
    }
    fn entropy(&mut self, buf: &mut [u8], site: &'static str) -> bool {
        with(|s| {
            let idx = s.entropy_draws.len();
            let real = buf.to_vec();
            if s.entropy_fail.contains(&idx) {
                s.entropy_draws.push(EntropyDraw { site, real, served: vec![], failed: true });
                return false;
            }
            if let Some(bytes) = s.entropy_script.pop_front() {
                if bytes.len() == buf.len() {
                    buf.copy_from_slice(&bytes);
                }
            } else if s.entropy_mode == EntropyMode::Simulate {
                let mut r = Rng::new(crate::prng::mix(&[s.entropy_seed, idx as u64, 0xE17]));
                let bytes = r.bytes(buf.len());
                buf.copy_from_slice(&bytes);
            }
            s.entropy_draws.push(EntropyDraw { site, real, served: buf.to_vec(), failed: false });
            true
        })
    }
    fn hash_seed(&mut self) -> u64 {
        with(|s| {
            s.hash_seeds_served += 1;
            let x = crate::prng::mix(&[s.hash_base, s.hash_ctr, 0x4a5]);
            s.hash_ctr += 1;
            x
        })
    }
}

/// Installs the simulated environment on this thread (idempotent).
pub fn install() {
    verif_hooks::install(Box::new(Forwarder));
}

pub fn uninstall() {
    verif_hooks::uninstall();
}

/// Prepare per-event clock parameters and clear the read log.
pub fn set_clock(base: i128, ticks: &[i128]) {
    with(|s| {
        s.clock_base = base;
        s.clock_ticks = ticks.to_vec();
        s.clock_reads.clear();
    });
}

pub fn take_clock_reads() -> Vec<(&'static str, i128)> {
    with(|s| std::mem::take(&mut s.clock_reads))
}

/// seam sites that were handed a stale real reading since the last call
pub fn take_stale_reads() -> Vec<&'static str> {
    with(|s| std::mem::take(&mut s.stale_reads))
}

pub fn set_entropy(mode: EntropyMode, seed: u64, fail: &[usize]) {
    with(|s| {
        s.entropy_mode = mode;
        s.entropy_seed = seed;
        s.entropy_fail = fail.iter().cloned().collect();
        s.entropy_draws.clear();
    });
}

/// The next draws are served from this recording (until it is exhausted or replaced).
pub fn set_entropy_script(draws: Vec<Vec<u8>>) {
    with(|s| s.entropy_script = draws.into_iter().collect());
}

pub fn take_entropy_draws() -> Vec<EntropyDraw> {
    with(|s| std::mem::take(&mut s.entropy_draws))
}

/// All hash maps created by the library until the next call derive their seed from `x`.
pub fn set_hash_base(x: u64) {
    with(|s| {
        s.hash_base = x;
        s.hash_ctr = 0;
    });
}

pub fn set_validators(table: BTreeMap<usize, Behaviour>) {
    with(|s| {
        s.validator_table = table;
        s.validator_calls.clear();
    });
}

pub fn take_validator_calls() -> Vec<ValidatorCall> {
    with(|s| std::mem::take(&mut s.validator_calls))
}

// ---------------------------------------------------------------------------------------------
// Validator slots: `validate_claim` wants `&'static dyn Fn`, so each registration slot is a plain fn
// item that looks its behaviour up in the thread-local table and logs the call.

use rusty_paseto::generic::PasetoClaimError;

fn slot_call(slot: usize, key: &str, value: &Value) -> Result<(), PasetoClaimError> {
    with(|s| {
        let beh = s.validator_table.get(&slot).cloned().unwrap_or(Behaviour::Accept);
        let ok = match &beh {
            Behaviour::Accept => true,
            Behaviour::Reject | Behaviour::RejectAs(_) => false,
            Behaviour::ExpectEq(v) => v == value,
        };
        s.validator_calls.push(ValidatorCall { slot, key: key.to_string(), value: value.clone(), returned_ok: ok });
        if ok {
            Ok(())
        } else {
            let k = key.to_string();
            Err(match &beh {
                Behaviour::RejectAs(v) => match v.as_str() {
                    "Unexpected" => PasetoClaimError::Unexpected(k),
                    "Invalid" => PasetoClaimError::Invalid(k, "expected".into(), "received".into()),
                    "Missing" => PasetoClaimError::Missing(k),
                    "Expired" => PasetoClaimError::Expired,
                    "RFC3339Date" => PasetoClaimError::RFC3339Date(k),
                    "UseBeforeAvailable" => PasetoClaimError::UseBeforeAvailable(k),
                    "Reserved" => PasetoClaimError::Reserved(k),
                    "DuplicateTopLevelPayloadClaim" => PasetoClaimError::DuplicateTopLevelPayloadClaim(k),
                    _ => PasetoClaimError::CustomValidation(k),
                },
                _ => PasetoClaimError::CustomValidation(k),
            })
        }
    })
}

macro_rules! slots {
    ($($name:ident = $n:expr),*) => {
        $( fn $name(key: &str, value: &Value) -> Result<(), PasetoClaimError> { slot_call($n, key, value) } )*
        pub const NUM_SLOTS: usize = [$($n),*].len();
        pub fn slot_fn(i: usize) -> &'static rusty_paseto::generic::ValidatorFn {
            match i {
                $( $n => &$name, )*
                _ => panic!("harness: validator slot out of range"),
            }
        }
    };
}
slots!(s0 = 0, s1 = 1, s2 = 2, s3 = 3, s4 = 4, s5 = 5, s6 = 6, s7 = 7, s8 = 8, s9 = 9, s10 = 10, s11 = 11);

// ---------------------------------------------------------------------------------------------
// Panic capture

pub fn install_quiet_panic_hook() {
    std::panic::set_hook(Box::new(|info| {
        let loc = info
            .location()
            .map(|l| format!("{}:{}", l.file(), l.line()))
            .unwrap_or_else(|| "<unknown>".to_string());
        let msg = if let Some(s) = info.payload().downcast_ref::<&str>() {
            (*s).to_string()
        } else if let Some(s) = info.payload().downcast_ref::<String>() {
            s.clone()
        } else {
            String::new()
        };
        // harness-internal panics must stay loud
        if loc.contains("/verif/sim/") || msg.starts_with("harness:") {
            eprintln!("HARNESS PANIC at {}: {}", loc, msg);
        }
        let _ = SIM.try_with(|s| {
            if let Ok(mut s) = s.try_borrow_mut() {
                s.last_panic = Some(format!("{} ({})", loc, truncate(&msg, 120)));
            }
        });
    }));
}

fn truncate(s: &str, n: usize) -> String {
    if s.len() <= n {
        s.to_string()
    } else {
        let mut e = n;
        while !s.is_char_boundary(e) {
            e -= 1;
        }
        format!("{}…", &s[..e])
    }
}

/// Runs `f` catching panics; returns Err(location) on panic.
pub fn guarded<R>(f: impl FnOnce() -> R) -> Result<R, String> {
    with(|s| s.last_panic = None);
    match std::panic::catch_unwind(std::panic::AssertUnwindSafe(f)) {
        Ok(r) => Ok(r),
        Err(_) => {
            // a panic inside a hook may have left the RefCell borrowed: it cannot, because `with`
            // releases on unwind; take the location.
            let loc = SIM.with(|s| match s.try_borrow_mut() {
                Ok(mut s) => s.last_panic.take(),
                Err(_) => None,
            });
            Err(loc.unwrap_or_else(|| "<unknown>".into()))
        }
    }
}
