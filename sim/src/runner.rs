//! Seeded search over runs: generate -> execute -> judge, in parallel worker threads (one simulated
//! world per thread), merged in a way that is independent of the worker count; minimisation and
//! replay-file writing for violations; known-finding classification.

use crate::env;
use crate::gen::{GenCtx, Tier};
use crate::model::*;
use crate::oracle::{self, Judgement, Violation};
use crate::prng;
use crate::world;
use serde_json::{json, Value};
use std::collections::{BTreeMap, BTreeSet};
use std::sync::atomic::{AtomicU64, Ordering};
use std::sync::{Arc, Mutex};

pub struct Scenario {
    pub property: &'static str,
    pub level: &'static str,
    pub rule: &'static str,
    pub runs: fn(Tier) -> u64,
    pub gen: fn(&GenCtx, u64) -> Option<Run>,
    pub judge: fn(&Run, &[Obs]) -> Judgement,
    pub assumptions: &'static [&'static str],
    /// sub-spaces this scenario enumerates completely (per sampled token / in every tier)
    pub exhaustive: &'static [&'static str],
}

#[derive(Clone, Debug, serde::Deserialize)]
pub struct KnownEntry {
    pub status: String,
    pub property: String,
    #[serde(default)]
    pub clause: String,
    #[serde(default, rename = "match")]
    pub matcher: BTreeMap<String, String>,
    pub what: String,
    #[serde(default)]
    pub commit: String,
}

pub fn load_known(path: &str) -> Vec<KnownEntry> {
    match std::fs::read_to_string(path) {
        Ok(s) => match serde_json::from_str::<Vec<KnownEntry>>(&s) {
            Ok(v) => v,
            Err(e) => {
                eprintln!("harness: cannot parse {}: {}", path, e);
                std::process::exit(2);
            }
        },
        Err(_) => vec![],
    }
}

pub fn known_index(known: &[KnownEntry], v: &Violation) -> Option<usize> {
    known.iter().position(|k| {
        k.status == "known"
            && k.property == v.property
            && k.clause == v.clause
            && k.matcher.iter().all(|(f, want)| v.facts.get(f).map_or(false, |have| have == want))
    })
}

/// Which binary must execute this run?  (None: cannot be executed anywhere.)
pub fn run_set(run: &Run) -> &'static str {
    let mut a = false;
    let mut b = false;
    for ev in &run.events {
        let p = match ev {
            Op::NewBuilder { proto, .. } => Some(*proto),
            Op::CoreIssue { proto, .. } => Some(*proto),
            Op::ForeignIssue { proto, .. } => Some(*proto),
            Op::NewVerifier { spec, .. } => Some(spec.proto),
            _ => None,
        };
        match p {
            Some(Proto::V1P) | Some(Proto::V2P) | Some(Proto::V4P) => a = true,
            Some(Proto::V3P) => b = true,
            _ => {}
        }
        if let Op::Deliver { control: Some(c), .. } = ev {
            match c.proto {
                Proto::V1P | Proto::V2P | Proto::V4P => a = true,
                Proto::V3P => b = true,
                _ => {}
            }
        }
    }
    match (a, b) {
        (true, true) => "none",
        (false, true) => "B",
        (true, false) => "A",
        // no protocol that only one binary has: the search runs it in A (so that nothing is counted
        // twice), a replay may use either binary
        (false, false) => "any",
    }
}

pub fn this_set() -> &'static str {
    if cfg!(feature = "set_b") {
        "B"
    } else {
        "A"
    }
}

#[derive(Default)]
struct Agg {
    runs_executed: u64,
    runs_skipped_other_set: u64,
    events: u64,
    evaluations: u64,
    clauses: BTreeMap<String, u64>,
    unjudged: BTreeMap<String, u64>,
    probes: BTreeMap<String, u64>,
    fired: BTreeMap<String, u64>,
    traces_nontrivial: BTreeSet<u64>,
    traces_all: BTreeSet<u64>,
    sim_min: Option<i128>,
    sim_max: Option<i128>,
    sim_span_sum: i128,
    failing: Vec<(u64, Vec<Violation>)>,
    /// observe-arm runs that violated, rewritten with their recorded entropy (run index -> scripted run)
    scripted: BTreeMap<u64, Run>,
    known_hits: BTreeMap<usize, (u64, u64)>, // entry -> (count, first run)
    samples: BTreeMap<u64, Value>,
}

fn merge_counts(into: &mut BTreeMap<String, u64>, from: &BTreeMap<String, u64>) {
    for (k, v) in from {
        *into.entry(k.clone()).or_insert(0) += v;
    }
}

fn trace_hash(trace: &[String]) -> u64 {
    let mut h = 0x1234_5678_9abc_def0u64;
    for t in trace {
        h = prng::mix(&[h, prng::str_hash(t)]);
    }
    h
}

/// Every execution happens on a freshly spawned OS thread with a freshly installed simulated
/// environment, so that nothing a run leaves behind in thread-local storage (of the harness or of the
/// code under test) can influence the next run: one run = one hermetic world.
pub fn on_fresh_thread<R: Send>(f: impl FnOnce() -> R + Send) -> R {
    std::thread::scope(|s| {
        std::thread::Builder::new()
            .stack_size(32 << 20)
            .spawn_scoped(s, || {
                env::install();
                let r = f();
                env::uninstall();
                r
            })
            .expect("harness: spawn run thread")
            .join()
            .unwrap_or_else(|_| {
                eprintln!("harness: run thread panicked");
                std::process::exit(2)
            })
    })
}

/// Rewrites an observe-arm run into one that replays exactly: every build that drew real OS entropy is
/// preceded by a recording of what it drew and switched to the simulated arm.
pub fn script_observed(run: &Run, obs: &[Obs]) -> Run {
    let mut out = run.clone();
    out.events.clear();
    for (op, ob) in run.events.iter().zip(obs.iter()) {
        match (op, ob) {
            (Op::Build { b, key, out: o, entropy_seed, entropy_fail, observe: true, now_ns }, Obs::Build { draws, .. }) => {
                out.events.push(Op::ScriptEntropy { draws: draws.iter().map(|d| d.real_hex.clone()).collect() });
                out.events.push(Op::Build { b: *b, key: *key, out: *o, entropy_seed: *entropy_seed, entropy_fail: entropy_fail.clone(), observe: false, now_ns: *now_ns });
            }
            _ => out.events.push(op.clone()),
        }
    }
    out.scenario = format!("{} (observe arm, entropy replayed from the recording)", run.scenario);
    out
}

pub fn exec_and_judge(sc: &Scenario, run: &Run) -> Judgement {
    on_fresh_thread(|| {
        let obs = world::execute(run);
        (sc.judge)(run, &obs)
    })
}

pub fn exec_obs_and_judge(sc: &Scenario, run: &Run) -> (Vec<Obs>, Judgement) {
    on_fresh_thread(|| {
        let obs = world::execute(run);
        let j = (sc.judge)(run, &obs);
        (obs, j)
    })
}

fn sample_of(run: &Run) -> Value {
    // a compact, human-readable rendering of the case
    let mut evs: Vec<Value> = vec![];
    for (i, e) in run.events.iter().enumerate() {
        if i >= 14 {
            evs.push(json!(format!("… {} more events", run.events.len() - i)));
            break;
        }
        let s = serde_json::to_string(e).unwrap_or_default();
        evs.push(json!(if s.len() > 260 { format!("{}…", s.chars().take(260).collect::<String>()) } else { s }));
    }
    json!({"run": run.run, "scenario": run.scenario, "events": evs})
}

pub struct RunnerOpts {
    pub tier: Tier,
    pub verif_seed: u64,
    pub workers: usize,
    pub runs_override: Option<u64>,
    pub known_path: String,
    pub replay_dir: String,
    pub inbox: Vec<crate::gen::InboxToken>,
    pub wall_cap_s: u64,
}

pub fn run_scenario(sc: &'static Scenario, opts: RunnerOpts) -> (Value, i32) {
    let t0 = std::time::Instant::now();
    let total = opts.runs_override.unwrap_or_else(|| (sc.runs)(opts.tier));
    let known = Arc::new(load_known(&opts.known_path));
    let next = Arc::new(AtomicU64::new(0));
    let ctx = Arc::new(GenCtx { verif_seed: opts.verif_seed, tier: opts.tier, inbox: opts.inbox });
    let agg = Arc::new(Mutex::new(Agg::default()));
    let truncated = Arc::new(AtomicU64::new(0));
    let wall_cap = opts.wall_cap_s;
    let mut handles = vec![];
    for _ in 0..opts.workers.max(1) {
        let next = next.clone();
        let ctx = ctx.clone();
        let agg = agg.clone();
        let known = known.clone();
        let truncated = truncated.clone();
        handles.push(
            std::thread::Builder::new()
                .stack_size(64 << 20)
                .spawn(move || {
                    env::install();
                    let mut local = Agg::default();
                    loop {
                        let i = next.fetch_add(1, Ordering::Relaxed);
                        if i >= total {
                            break;
                        }
                        if wall_cap > 0 && t0.elapsed().as_secs() > wall_cap {
                            truncated.store(1, Ordering::Relaxed);
                            break;
                        }
                        let run = match (sc.gen)(&ctx, i) {
                            Some(r) => r,
                            None => continue,
                        };
                        let set = run_set(&run);
                        if !(set == this_set() || (set == "any" && this_set() == "A")) {
                            local.runs_skipped_other_set += 1;
                            continue;
                        }
                        let observe_arm = run.events.iter().any(|e| matches!(e, Op::Build { observe: true, .. }));
                        let (j, obs_kept) = if observe_arm {
                            let (o, j) = exec_obs_and_judge(sc, &run);
                            (j, Some(o))
                        } else {
                            (exec_and_judge(sc, &run), None)
                        };
                        local.runs_executed += 1;
                        local.events += run.events.len() as u64;
                        local.evaluations += j.evaluations;
                        merge_counts(&mut local.clauses, &j.clauses);
                        merge_counts(&mut local.unjudged, &j.unjudged);
                        merge_counts(&mut local.probes, &j.probes);
                        merge_counts(&mut local.fired, &j.fired);
                        let h = trace_hash(&j.trace);
                        local.traces_all.insert(h);
                        if j.nontrivial && j.evaluations > 0 {
                            local.traces_nontrivial.insert(h);
                        }
                        if let (Some(a), Some(b)) = (j.sim_ns_min, j.sim_ns_max) {
                            local.sim_min = Some(local.sim_min.map_or(a, |m| m.min(a)));
                            local.sim_max = Some(local.sim_max.map_or(b, |m| m.max(b)));
                            local.sim_span_sum += b - a;
                        }
                        if local.samples.len() < 3 || i < *local.samples.keys().next_back().unwrap() {
                            if j.evaluations > 0 {
                                local.samples.insert(i, sample_of(&run));
                                while local.samples.len() > 3 {
                                    let k = *local.samples.keys().next_back().unwrap();
                                    local.samples.remove(&k);
                                }
                            }
                        }
                        if !j.violations.is_empty() {
                            let mut unknown = vec![];
                            for v in &j.violations {
                                match known_index(&known, v) {
                                    Some(k) => {
                                        let e = local.known_hits.entry(k).or_insert((0, i));
                                        e.0 += 1;
                                        e.1 = e.1.min(i);
                                    }
                                    None => unknown.push(v.clone()),
                                }
                            }
                            if !unknown.is_empty() && local.failing.len() < 64 {
                                // real OS entropy cannot be had twice: keep what this execution drew
                                if let (Some(o), true) = (&obs_kept, local.scripted.len() < 4) {
                                    let s = script_observed(&run, o);
                                    let j2 = exec_and_judge(sc, &s);
                                    if j2.violations.iter().any(|v| unknown.iter().any(|u| u.clause == v.clause)) {
                                        local.scripted.insert(i, s);
                                    }
                                }
                                local.failing.push((i, unknown));
                            }
                        }
                    }
                    env::uninstall();
                    let mut g = agg.lock().unwrap();
                    g.runs_executed += local.runs_executed;
                    g.runs_skipped_other_set += local.runs_skipped_other_set;
                    g.events += local.events;
                    g.evaluations += local.evaluations;
                    merge_counts(&mut g.clauses, &local.clauses);
                    merge_counts(&mut g.unjudged, &local.unjudged);
                    merge_counts(&mut g.probes, &local.probes);
                    merge_counts(&mut g.fired, &local.fired);
                    g.traces_all.extend(local.traces_all);
                    g.traces_nontrivial.extend(local.traces_nontrivial);
                    if let Some(a) = local.sim_min {
                        g.sim_min = Some(g.sim_min.map_or(a, |m| m.min(a)));
                    }
                    if let Some(b) = local.sim_max {
                        g.sim_max = Some(g.sim_max.map_or(b, |m| m.max(b)));
                    }
                    g.sim_span_sum += local.sim_span_sum;
                    g.failing.extend(local.failing);
                    g.scripted.extend(local.scripted);
                    for (k, (c, first)) in local.known_hits {
                        let e = g.known_hits.entry(k).or_insert((0, first));
                        e.0 += c;
                        e.1 = e.1.min(first);
                    }
                    for (k, v) in local.samples {
                        g.samples.insert(k, v);
                    }
                })
                .expect("harness: spawn worker"),
        );
    }
    for h in handles {
        if h.join().is_err() {
            eprintln!("harness: worker thread panicked");
            std::process::exit(2);
        }
    }
    let mut g = std::mem::take(&mut *agg.lock().unwrap());
    g.failing.sort_by_key(|x| x.0);
    while g.samples.len() > 3 {
        let k = *g.samples.keys().next_back().unwrap();
        g.samples.remove(&k);
    }

    // ---- minimise and write replay files (distinct clause+facts signatures, lowest run index first)
    env::install();
    let mut reported: Vec<Value> = vec![];
    let mut seen_sig: BTreeSet<String> = BTreeSet::new();
    let _ = std::fs::create_dir_all(&opts.replay_dir);
    for (i, vs) in &g.failing {
        let v0 = &vs[0];
        let sig = format!("{}|{:?}", v0.clause, v0.facts.get("site").or(v0.facts.get("proto")));
        if !seen_sig.insert(sig) || reported.len() >= 5 {
            continue;
        }
        let run = match g.scripted.get(i).cloned().or_else(|| (sc.gen)(&ctx, *i)) {
            Some(r) => r,
            None => continue,
        };
        let original_events = run.events.len();
        // (a scripted run's event indices differ from the observed one's: match on the clause)
        let v0 = &match g.scripted.get(i) {
            Some(s) => {
                let j = exec_and_judge(sc, s);
                j.violations.iter().find(|v| v.clause == v0.clause).cloned().unwrap_or_else(|| v0.clone())
            }
            None => v0.clone(),
        };
        let (min_run, vmin, execs) = minimise(sc, &run, v0, &known);
        let path = format!("{}/{}-{}-{}-{}.json", opts.replay_dir, sc.property, this_set(), opts.verif_seed, i);
        let file = replay_doc(sc.property, opts.verif_seed, *i, &vmin, original_events, &min_run, execs, "in-process");
        if let Err(e) = std::fs::write(&path, serde_json::to_string_pretty(&file).unwrap()) {
            eprintln!("harness: cannot write {}: {}", path, e);
            std::process::exit(2);
        }
        reported.push(json!({"replay": path, "clause": vmin.clause, "expected": vmin.expected, "observed": vmin.observed, "facts": vmin.facts, "run_index": i, "events": min_run.events.len()}));
    }
    env::uninstall();

    let wall = t0.elapsed().as_secs_f64();
    let known_list: Vec<Value> = g
        .known_hits
        .iter()
        .map(|(k, (c, first))| json!({"entry": k, "what": known[*k].what, "clause": known[*k].clause, "count": c, "first_run": first}))
        .collect();
    let out = json!({
        "property": sc.property,
        "set": this_set(),
        "tier": if opts.tier == Tier::Quick { "quick" } else { "thorough" },
        "seed": opts.verif_seed,
        "level": sc.level,
        "rule": sc.rule,
        "assumptions": sc.assumptions,
        "exhaustive_subspaces": sc.exhaustive,
        "runs_planned": total,
        "runs_executed": g.runs_executed,
        "runs_left_to_other_set": g.runs_skipped_other_set,
        "events": g.events,
        "evaluations": g.evaluations,
        "distinct_nontrivial": g.traces_nontrivial.len(),
        "distinct_traces_all": g.traces_all.len(),
        "clauses": g.clauses,
        "unjudged": g.unjudged,
        "probes": g.probes,
        "faults_fired": g.fired,
        "sim_ns_min": g.sim_min.map(|x| x.to_string()),
        "sim_ns_max": g.sim_max.map(|x| x.to_string()),
        "sim_span_sum_ns": g.sim_span_sum.to_string(),
        "samples": g.samples.values().cloned().collect::<Vec<_>>(),
        "violating_runs": g.failing.len(),
        "violations": reported,
        "known_findings": known_list,
        "truncated_by_wall_cap": truncated.load(Ordering::Relaxed) == 1,
        "wall_s": wall,
        "workers": opts.workers,
    });
    let code = if g.failing.is_empty() { 0 } else { 1 };
    (out, code)
}

// -------------------------------------------------------------------------------------------------
// minimisation

fn still_fails(sc: &Scenario, run: &Run, target: &Violation, known: &[KnownEntry], execs: &mut u64) -> Option<Violation> {
    *execs += 1;
    let j = exec_and_judge(sc, run);
    j.violations.into_iter().find(|v| v.clause == target.clause && known_index(known, v).is_none())
}

/// The same question answered by a fresh process (`paseto-sim judge <file> <clause>`): used when the code
/// under test keeps process-wide state, so that candidates accepted in-process might not reproduce.
fn still_fails_isolated(sc: &Scenario, run: &Run, target: &Violation, known_path: &str, execs: &mut u64) -> Option<Violation> {
    *execs += 1;
    let tmp = std::env::temp_dir().join(format!("paseto-sim-cand-{}-{}.json", std::process::id(), *execs));
    let doc = json!({"property": sc.property, "clause": target.clause, "run": run});
    if std::fs::write(&tmp, serde_json::to_string(&doc).unwrap()).is_err() {
        return None;
    }
    let exe = std::env::current_exe().ok()?;
    let out = std::process::Command::new(exe).arg("judge").arg(&tmp).arg("--known").arg(known_path).output().ok();
    let _ = std::fs::remove_file(&tmp);
    let out = out?;
    if out.status.code() == Some(1) {
        let text = String::from_utf8_lossy(&out.stdout);
        let v: Option<Violation> = text.lines().rev().find_map(|l| serde_json::from_str::<Violation>(l).ok());
        v.or_else(|| Some(target.clone()))
    } else {
        None
    }
}

pub fn minimise(sc: &Scenario, run: &Run, target: &Violation, known: &[KnownEntry]) -> (Run, Violation, u64) {
    minimise_with(run, target, 4000, &mut |r, execs| still_fails(sc, r, target, known, execs))
}

pub fn minimise_isolated(sc: &Scenario, run: &Run, target: &Violation, known_path: &str) -> Option<(Run, Violation, u64)> {
    let mut execs = 0u64;
    still_fails_isolated(sc, run, target, known_path, &mut execs)?;
    Some(minimise_with(run, target, 500, &mut |r, execs| still_fails_isolated(sc, r, target, known_path, execs)))
}

fn minimise_with(run: &Run, target: &Violation, budget: u64, check: &mut dyn FnMut(&Run, &mut u64) -> Option<Violation>) -> (Run, Violation, u64) {
    let mut execs = 0u64;
    let mut best = run.clone();
    let mut bestv = match check(&best, &mut execs) {
        Some(v) => v,
        None => return (best, target.clone(), execs),
    };
    // wall-clock cap per violation (a statistical clause over a 10^4..10^5-event history needs the whole
    // history; shrinking it further would cost minutes per attempt): what has been reached by then is
    // written out - any prefix of the minimisation is a valid, exactly replayable failing run
    let cap_s: u64 = std::env::var("VERIF_MINIMISE_S").ok().and_then(|s| s.parse().ok()).unwrap_or(60);
    let deadline = std::time::Instant::now() + std::time::Duration::from_secs(cap_s);
    let budget = budget;
    macro_rules! go {
        () => {
            execs < budget && std::time::Instant::now() < deadline
        };
    }
    // 1. cut everything after the violating event
    if bestv.event + 1 < best.events.len() {
        let mut c = best.clone();
        c.events.truncate(bestv.event + 1);
        if let Some(v) = check(&c, &mut execs) {
            best = c;
            bestv = v;
        }
    }
    // 2. delta debugging over events
    let mut chunk = (best.events.len() / 2).max(1);
    while chunk >= 1 && go!() {
        let mut i = 0;
        let mut progressed = false;
        while i < best.events.len() && go!() {
            let end = (i + chunk).min(best.events.len());
            let mut c = best.clone();
            c.events.drain(i..end);
            if let Some(v) = check(&c, &mut execs) {
                best = c;
                bestv = v;
                progressed = true;
            } else {
                i += chunk;
            }
        }
        if chunk == 1 && !progressed {
            break;
        }
        if chunk > 1 {
            chunk /= 2;
        } else if !progressed {
            break;
        }
    }
    // 3. argument shrinking, to a fixpoint
    let mut changed = true;
    while changed && go!() {
        changed = false;
        for i in 0..best.events.len() {
            for cand in shrink_event(&best.events[i]) {
                if !go!() {
                    break;
                }
                let mut c = best.clone();
                c.events[i] = cand;
                if let Some(v) = check(&c, &mut execs) {
                    best = c;
                    bestv = v;
                    changed = true;
                    break;
                }
            }
        }
    }
    (best, bestv, execs)
}

fn shrink_string(s: &str) -> Vec<String> {
    let mut out = vec![];
    if s.is_empty() {
        return out;
    }
    out.push(String::new());
    let chars: Vec<char> = s.chars().collect();
    if chars.len() > 1 {
        out.push(chars[..chars.len() / 2].iter().collect());
        out.push(chars[..chars.len() - 1].iter().collect());
        out.push(chars[1..].iter().collect());
    }
    if s.chars().any(|c| c != 'a') && s.len() <= 64 {
        out.push("a".repeat(chars.len()));
    }
    out
}

fn shrink_opt(s: &Option<String>) -> Vec<Option<String>> {
    match s {
        None => vec![],
        Some(x) => {
            let mut v = vec![None];
            v.extend(shrink_string(x).into_iter().map(Some));
            v
        }
    }
}

fn shrink_value(v: &Value) -> Vec<Value> {
    match v {
        Value::Null => vec![],
        Value::Bool(_) => vec![Value::Null],
        Value::Number(_) => vec![Value::Null, json!(0)],
        Value::String(s) => {
            let mut o = vec![Value::Null];
            o.extend(shrink_string(s).into_iter().map(Value::String));
            o
        }
        Value::Array(a) => {
            let mut o = vec![Value::Null, json!([])];
            for i in 0..a.len() {
                let mut b = a.clone();
                b.remove(i);
                o.push(Value::Array(b));
            }
            o
        }
        Value::Object(m) => {
            let mut o = vec![Value::Null, json!({})];
            for k in m.keys() {
                let mut b = m.clone();
                b.remove(k);
                o.push(Value::Object(b));
            }
            o
        }
    }
}

fn shrink_claim(c: &ClaimSpec) -> Vec<ClaimSpec> {
    match c {
        ClaimSpec::Iss(s) => shrink_string(s).into_iter().map(ClaimSpec::Iss).collect(),
        ClaimSpec::Sub(s) => shrink_string(s).into_iter().map(ClaimSpec::Sub).collect(),
        ClaimSpec::Aud(s) => shrink_string(s).into_iter().map(ClaimSpec::Aud).collect(),
        ClaimSpec::Jti(s) => shrink_string(s).into_iter().map(ClaimSpec::Jti).collect(),
        ClaimSpec::Custom { key, value } => {
            let mut o: Vec<ClaimSpec> = shrink_value(value).into_iter().map(|v| ClaimSpec::Custom { key: key.clone(), value: v }).collect();
            if key != "a" && key != "b" {
                o.push(ClaimSpec::Custom { key: "a".into(), value: value.clone() });
            }
            o
        }
        ClaimSpec::Native { key, val } => vec![ClaimSpec::Custom { key: key.clone(), value: val.to_json() }],
        ClaimSpec::CustomRef { key, value } => shrink_value(value).into_iter().map(|v| ClaimSpec::CustomRef { key: key.clone(), value: v }).collect(),
        ClaimSpec::Bare { key, value } => shrink_value(value).into_iter().map(|v| ClaimSpec::Bare { key: key.clone(), value: v }).collect(),
        _ => vec![],
    }
}

fn shrink_payload(p: &str) -> Vec<String> {
    let mut out = vec![];
    if let Ok(Value::Object(m)) = serde_json::from_str::<Value>(p) {
        for k in m.keys() {
            let mut b = m.clone();
            b.remove(k);
            out.push(Value::Object(b).to_string());
        }
        for (k, v) in &m {
            for sv in shrink_value(v).into_iter().skip(1).take(3) {
                let mut b = m.clone();
                b.insert(k.clone(), sv);
                out.push(Value::Object(b).to_string());
            }
        }
    } else {
        out.extend(shrink_string(p));
    }
    out
}

fn shrink_spec(s: &VerifierSpec) -> Vec<VerifierSpec> {
    let mut out = vec![];
    for i in 0..s.expect.len() {
        let mut c = s.clone();
        c.expect.remove(i);
        out.push(c);
    }
    for i in 0..s.validators.len() {
        let mut c = s.clone();
        c.validators.remove(i);
        out.push(c);
    }
    for (i, e) in s.expect.iter().enumerate() {
        for sc in shrink_claim(e) {
            let mut c = s.clone();
            c.expect[i] = sc;
            out.push(c);
        }
    }
    for f in shrink_opt(&s.footer) {
        let mut c = s.clone();
        c.footer = f;
        out.push(c);
    }
    for a in shrink_opt(&s.assertion) {
        let mut c = s.clone();
        c.assertion = a;
        out.push(c);
    }
    if s.hash_seed != 0 {
        let mut c = s.clone();
        c.hash_seed = 0;
        out.push(c);
    }
    if s.layer == Layer::Batteries {
        let mut c = s.clone();
        c.layer = Layer::Generic;
        c.default_validators = false;
        out.push(c);
    }
    out
}

fn shrink_event(op: &Op) -> Vec<Op> {
    let mut out = vec![];
    match op {
        Op::CoreIssue { proto, key, nonce_hex, payload, footer, assertion, out: o, order, rebuild } => {
            for p in shrink_payload(payload) {
                out.push(Op::CoreIssue { proto: *proto, key: *key, nonce_hex: nonce_hex.clone(), payload: p, footer: footer.clone(), assertion: assertion.clone(), out: *o, order: *order, rebuild: *rebuild });
            }
            for f in shrink_opt(footer) {
                out.push(Op::CoreIssue { proto: *proto, key: *key, nonce_hex: nonce_hex.clone(), payload: payload.clone(), footer: f, assertion: assertion.clone(), out: *o, order: *order, rebuild: *rebuild });
            }
            for a in shrink_opt(assertion) {
                out.push(Op::CoreIssue { proto: *proto, key: *key, nonce_hex: nonce_hex.clone(), payload: payload.clone(), footer: footer.clone(), assertion: a, out: *o, order: *order, rebuild: *rebuild });
            }
            if *order != 0 {
                out.push(Op::CoreIssue { proto: *proto, key: *key, nonce_hex: nonce_hex.clone(), payload: payload.clone(), footer: footer.clone(), assertion: assertion.clone(), out: *o, order: 0, rebuild: false });
            }
            let zeros = "00".repeat(nonce_hex.len() / 2);
            if *nonce_hex != zeros {
                out.push(Op::CoreIssue { proto: *proto, key: *key, nonce_hex: zeros, payload: payload.clone(), footer: footer.clone(), assertion: assertion.clone(), out: *o, order: *order, rebuild: *rebuild });
            }
        }
        Op::BuilderOp { b, op } => match op {
            BOp::SetClaim(c) => {
                for sc in shrink_claim(c) {
                    out.push(Op::BuilderOp { b: *b, op: BOp::SetClaim(sc) });
                }
            }
            BOp::ExtendClaims(m) => {
                for k in m.keys() {
                    let mut c = m.clone();
                    c.remove(k);
                    out.push(Op::BuilderOp { b: *b, op: BOp::ExtendClaims(c) });
                }
            }
            BOp::SetFooter(f) => {
                for s in shrink_string(f) {
                    out.push(Op::BuilderOp { b: *b, op: BOp::SetFooter(s) });
                }
            }
            BOp::SetAssertion(f) => {
                for s in shrink_string(f) {
                    out.push(Op::BuilderOp { b: *b, op: BOp::SetAssertion(s) });
                }
            }
            _ => {}
        },
        Op::Build { b, key, out: o, entropy_seed, entropy_fail, observe, now_ns } => {
            if *observe {
                out.push(Op::Build { b: *b, key: *key, out: *o, entropy_seed: *entropy_seed, entropy_fail: entropy_fail.clone(), observe: false, now_ns: *now_ns });
            }
            if *entropy_seed != 0 {
                out.push(Op::Build { b: *b, key: *key, out: *o, entropy_seed: 0, entropy_fail: entropy_fail.clone(), observe: *observe, now_ns: *now_ns });
            }
        }
        Op::NewVerifier { v, spec } => {
            for s in shrink_spec(spec) {
                out.push(Op::NewVerifier { v: *v, spec: s });
            }
        }
        Op::Deliver { msg, to, now_ns, ticks, twin, control, key } => {
            if control.is_some() {
                out.push(Op::Deliver { msg: *msg, to: *to, now_ns: *now_ns, ticks: ticks.clone(), twin: *twin, control: None, key: *key });
            }
            if *twin {
                out.push(Op::Deliver { msg: *msg, to: *to, now_ns: *now_ns, ticks: ticks.clone(), twin: false, control: control.clone(), key: *key });
            }
            if !ticks.is_empty() {
                out.push(Op::Deliver { msg: *msg, to: *to, now_ns: *now_ns, ticks: vec![], twin: *twin, control: control.clone(), key: *key });
            }
        }
        Op::Fault { src, out: o, kind, other } => {
            let simpler: Vec<FaultKind> = match kind {
                FaultKind::BitFlip { seg, bit } if *bit > 0 => vec![FaultKind::BitFlip { seg: seg.clone(), bit: 0 }, FaultKind::BitFlip { seg: seg.clone(), bit: bit / 2 }],
                FaultKind::Truncate { n } if *n > 0 => vec![FaultKind::Truncate { n: n / 2 }, FaultKind::Truncate { n: n - 1 }],
                FaultKind::Extend { text } => shrink_string(text).into_iter().filter(|s| !s.is_empty()).map(|s| FaultKind::Extend { text: s }).collect(),
                _ => vec![],
            };
            for k in simpler {
                out.push(Op::Fault { src: *src, out: *o, kind: k, other: *other });
            }
        }
        Op::Literal { out: o, text } => {
            for s in shrink_string(text) {
                out.push(Op::Literal { out: *o, text: s });
            }
        }
        Op::KeyParse { n, text } => {
            for s in shrink_string(text) {
                out.push(Op::KeyParse { n: *n, text: s });
            }
        }
        _ => {}
    }
    out
}

pub fn replay_doc(property: &str, seed: u64, run_index: u64, v: &Violation, original_events: usize, run: &Run, execs: u64, how: &str) -> Value {
    json!({
        "v": 1,
        "property": property,
        "set": this_set(),
        "verif_seed": seed,
        "run_index": run_index,
        "clause": v.clause,
        "expected": v.expected,
        "observed": v.observed,
        "facts": v.facts,
        "violating_event": v.event,
        "original_events": original_events,
        "minimised_events": run.events.len(),
        "minimisation_executions": execs,
        "minimisation": how,
        "run": run,
    })
}

/// `paseto-sim judge <file>`: exit 1 (and the violation as a JSON line) iff the run in the file violates
/// the clause named in it (known findings excluded).
pub fn judge_file(sc_lookup: fn(&str) -> Option<&'static Scenario>, path: &str, known_path: &str) -> i32 {
    let v: Value = match std::fs::read_to_string(path).ok().and_then(|t| serde_json::from_str(&t).ok()) {
        Some(v) => v,
        None => return 2,
    };
    let run: Run = match serde_json::from_value(v["run"].clone()) {
        Ok(r) => r,
        Err(_) => return 2,
    };
    let sc = match sc_lookup(v["property"].as_str().unwrap_or("")) {
        Some(s) => s,
        None => return 2,
    };
    let clause = v["clause"].as_str().unwrap_or("");
    let known = load_known(known_path);
    env::install();
    let j = exec_and_judge(sc, &run);
    env::uninstall();
    match j.violations.into_iter().find(|x| x.clause == clause && known_index(&known, x).is_none()) {
        Some(x) => {
            println!("{}", serde_json::to_string(&x).unwrap());
            1
        }
        None => 0,
    }
}

/// `paseto-sim reminimise`: regenerate run `index`, confirm the violation in this fresh process, minimise
/// with every candidate judged by a fresh process, write the replay file.
#[allow(clippy::too_many_arguments)]
pub fn reminimise(sc: &'static Scenario, ctx: &GenCtx, index: u64, clause: &str, known_path: &str, out: &str) -> i32 {
    let run = match (sc.gen)(ctx, index) {
        Some(r) => r,
        None => return 2,
    };
    let known = load_known(known_path);
    env::install();
    let j = exec_and_judge(sc, &run);
    env::uninstall();
    let target = match j.violations.into_iter().find(|x| x.clause == clause && known_index(&known, x).is_none()) {
        Some(t) => t,
        None => {
            println!("NOT-REPRODUCED original run {} does not violate {} in a fresh process", index, clause);
            return 3;
        }
    };
    let original = run.events.len();
    let (min_run, vmin, execs) = match minimise_isolated(sc, &run, &target, known_path) {
        Some(x) => x,
        None => (run.clone(), target.clone(), 0),
    };
    let doc = replay_doc(sc.property, ctx.verif_seed, index, &vmin, original, &min_run, execs, "isolated (every candidate judged by a fresh process)");
    if std::fs::write(out, serde_json::to_string_pretty(&doc).unwrap()).is_err() {
        return 2;
    }
    println!("REMINIMISED {} events -> {} ({} fresh-process executions)", original, min_run.events.len(), execs);
    0
}

// -------------------------------------------------------------------------------------------------
// replay

pub fn replay(sc_lookup: fn(&str) -> Option<&'static Scenario>, path: &str, known_path: &str) -> i32 {
    let text = match std::fs::read_to_string(path) {
        Ok(t) => t,
        Err(e) => {
            eprintln!("harness: cannot read {}: {}", path, e);
            return 2;
        }
    };
    let v: Value = match serde_json::from_str(&text) {
        Ok(v) => v,
        Err(e) => {
            eprintln!("harness: bad replay file: {}", e);
            return 2;
        }
    };
    let run: Run = match serde_json::from_value(v["run"].clone()) {
        Ok(r) => r,
        Err(e) => {
            eprintln!("harness: bad run in replay file: {}", e);
            return 2;
        }
    };
    let prop = v["property"].as_str().unwrap_or("");
    let clause = v["clause"].as_str().unwrap_or("");
    let sc = match sc_lookup(prop) {
        Some(s) => s,
        None => {
            eprintln!("harness: unknown property {}", prop);
            return 2;
        }
    };
    if run_set(&run) != this_set() && run_set(&run) != "any" {
        eprintln!("harness: this replay needs the set {} binary", run_set(&run));
        return 2;
    }
    let known = load_known(known_path);
    let (obs, j) = exec_obs_and_judge(sc, &run);
    for (i, (e, o)) in run.events.iter().zip(obs.iter()).enumerate() {
        let es = serde_json::to_string(e).unwrap_or_default();
        let os = serde_json::to_string(o).unwrap_or_default();
        let cut = |s: String| if s.len() > 400 { format!("{}…", s.chars().take(400).collect::<String>()) } else { s };
        println!("[{}] {}\n     -> {}", i, cut(es), cut(os));
    }
    let mut hit = false;
    for viol in &j.violations {
        let k = known_index(&known, viol);
        println!(
            "{} property={} clause={} event={} expected=<{}> observed=<{}>",
            if k.is_some() { "known-finding" } else { "violation" },
            viol.property,
            viol.clause,
            viol.event,
            viol.expected,
            viol.observed
        );
        if viol.clause == clause {
            hit = true;
        }
    }
    if hit {
        println!("REPRODUCED property={} clause={}", prop, clause);
        1
    } else {
        println!("NOT-REPRODUCED property={} clause={}", prop, clause);
        3
    }
}
