mod arena;
mod civil;
mod env;
mod faults;
mod keys;
mod model;
mod prng;
mod world;

fn main() {
    env::install_quiet_panic_hook();
    env::install();
    use model::*;
    let run = Run {
        v: 1, property: "smoke".into(), scenario: "smoke".into(), set: "A".into(), verif_seed: 1, run: 0,
        keys: vec![KeySpec::Sym { hex: "00".repeat(32) }, KeySpec::Ed{seed_hex:"01".repeat(32)}],
        events: vec![
            Op::NewBuilder { b: 0, proto: Proto::V4L, layer: Layer::Batteries, now_ns: Ns(1_700_000_000_000_000_000) },
            Op::BuilderOp { b: 0, op: BOp::SetClaim(ClaimSpec::Sub("me".into())) },
            Op::Build { b: 0, key: 0, out: 0, entropy_seed: 7, entropy_fail: vec![], observe: false, now_ns: Ns(0) },
            Op::NewVerifier { v: 0, spec: VerifierSpec { proto: Proto::V4L, layer: Layer::Batteries, key: 0, footer: None, assertion: None, default_validators: true, expect: vec![ClaimSpec::Sub("me".into())], expect_via_extend:false, validators: vec![], hash_seed: 3 } },
            Op::Deliver { msg: 0, to: 0, now_ns: Ns(1_700_000_000_000_000_000 + 5), ticks: vec![Ns(1)], twin: true, control: None },
            Op::Fault { src: 0, out: 1, kind: FaultKind::Truncate { n: 12 }, other: None },
            Op::Deliver { msg: 1, to: 0, now_ns: Ns(1_700_000_000_000_000_000 + 5), ticks: vec![], twin: false, control: None },
            Op::KeyParse { n: 32, text: "00ff".into() },
        ],
    };
    println!("{}", serde_json::to_string_pretty(&run).unwrap());
    let obs = world::execute(&run);
    for o in &obs { println!("{}", serde_json::to_string(o).unwrap()); }
}
