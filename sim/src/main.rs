//! paseto-sim: deterministic simulation harness for rusty_paseto (see /verif/DESIGN.md).
//!
//!   paseto-sim run <property> [--tier quick|thorough] [--seed N] [--workers N] [--runs N]
//!                  [--out partial.json] [--known file] [--replays dir] [--inbox file]
//!   paseto-sim replay <file> [--known file]
//!   paseto-sim outbox --seed N --out file
//!   paseto-sim digest <property> [--seed N] [--runs N] [--workers N]     (determinism self-test)
//!   paseto-sim list

#[macro_use]
mod macros;
mod arena;
mod gen;
mod civil;
mod env;
mod faults;
mod foreign;
mod keys;
mod model;
mod oracle;
mod outbox;
mod prng;
mod runner;
mod scenarios;
mod world;

use gen::Tier;

pub const DEFAULT_SEED: u64 = 20_261_002;

fn arg_val(args: &[String], name: &str) -> Option<String> {
    args.iter().position(|a| a == name).and_then(|i| args.get(i + 1).cloned())
}

fn main() {
    env::install_quiet_panic_hook();
    let args: Vec<String> = std::env::args().collect();
    if args.len() < 2 {
        eprintln!("usage: paseto-sim run|replay|outbox|digest|list …");
        std::process::exit(2);
    }
    let seed = arg_val(&args, "--seed")
        .or_else(|| std::env::var("VERIF_SEED").ok())
        .and_then(|s| s.trim().parse::<u64>().ok())
        .unwrap_or(DEFAULT_SEED);
    let workers = arg_val(&args, "--workers").and_then(|s| s.parse().ok()).unwrap_or(16usize);
    let known = arg_val(&args, "--known").unwrap_or_else(|| "/verif/known_findings.json".into());
    match args[1].as_str() {
        "list" => {
            for s in scenarios::all() {
                println!("{} {}", s.property, s.level);
            }
        }
        "run" => {
            let prop = args.get(2).cloned().unwrap_or_default();
            let sc = match scenarios::lookup(&prop) {
                Some(s) => s,
                None => {
                    eprintln!("harness: no scenario for property {:?}", prop);
                    std::process::exit(2);
                }
            };
            let tier = match arg_val(&args, "--tier").or_else(|| std::env::var("VERIF_TIER").ok()).as_deref() {
                Some("thorough") => Tier::Thorough,
                _ => Tier::Quick,
            };
            let inbox = match arg_val(&args, "--inbox") {
                Some(p) => match std::fs::read_to_string(&p).ok().and_then(|s| serde_json::from_str(&s).ok()) {
                    Some(v) => v,
                    None => {
                        eprintln!("harness: cannot read inbox {}", p);
                        std::process::exit(2);
                    }
                },
                None => vec![],
            };
            println!("VERIF_SEED={} property={} tier={:?} set={} workers={}", seed, prop, tier, runner::this_set(), workers);
            let opts = runner::RunnerOpts {
                tier,
                verif_seed: seed,
                workers,
                runs_override: arg_val(&args, "--runs").and_then(|s| s.parse().ok()),
                known_path: known,
                replay_dir: arg_val(&args, "--replays").unwrap_or_else(|| "/verif/replays".into()),
                inbox,
                wall_cap_s: arg_val(&args, "--wall-cap").and_then(|s| s.parse().ok()).unwrap_or(0),
            };
            let (out, code) = runner::run_scenario(sc, opts);
            let text = serde_json::to_string_pretty(&out).unwrap();
            match arg_val(&args, "--out") {
                Some(p) => {
                    if let Err(e) = std::fs::write(&p, text) {
                        eprintln!("harness: cannot write {}: {}", p, e);
                        std::process::exit(2);
                    }
                }
                None => println!("{}", text),
            }
            std::process::exit(code);
        }
        "replay" => {
            let path = args.get(2).cloned().unwrap_or_default();
            let code = runner::replay(scenarios::lookup, &path, &known);
            std::process::exit(code);
        }
        "dump" => {
            // paseto-sim dump <property> --run I [--seed S] [--tier t]: the generated event list and what
            // executing it observes (debugging aid)
            let prop = args.get(2).cloned().unwrap_or_default();
            let sc = match scenarios::lookup(&prop) {
                Some(s) => s,
                None => std::process::exit(2),
            };
            let tier = match arg_val(&args, "--tier").as_deref() {
                Some("thorough") => Tier::Thorough,
                _ => Tier::Quick,
            };
            let ctx = gen::GenCtx { verif_seed: seed, tier, inbox: vec![] };
            let index: u64 = arg_val(&args, "--run").and_then(|s| s.parse().ok()).unwrap_or(0);
            if let Some(run) = (sc.gen)(&ctx, index) {
                let (obs, j) = runner::exec_obs_and_judge(sc, &run);
                for (i, (e, o)) in run.events.iter().zip(obs.iter()).enumerate() {
                    println!("[{}] {}\n     -> {}", i, serde_json::to_string(e).unwrap(), serde_json::to_string(o).unwrap());
                }
                println!("trace: {}", j.trace.join(" | "));
            }
        }
        "judge" => {
            let path = args.get(2).cloned().unwrap_or_default();
            std::process::exit(runner::judge_file(scenarios::lookup, &path, &known));
        }
        "reminimise" => {
            // paseto-sim reminimise <property> --seed S --run I --clause C --out file [--tier t] [--inbox f]
            let prop = args.get(2).cloned().unwrap_or_default();
            let sc = match scenarios::lookup(&prop) {
                Some(s) => s,
                None => std::process::exit(2),
            };
            let tier = match arg_val(&args, "--tier").as_deref() {
                Some("thorough") => Tier::Thorough,
                _ => Tier::Quick,
            };
            let inbox = arg_val(&args, "--inbox").and_then(|p| std::fs::read_to_string(p).ok()).and_then(|s| serde_json::from_str(&s).ok()).unwrap_or_default();
            let ctx = gen::GenCtx { verif_seed: seed, tier, inbox };
            let index: u64 = arg_val(&args, "--run").and_then(|s| s.parse().ok()).unwrap_or(0);
            let clause = arg_val(&args, "--clause").unwrap_or_default();
            let out = arg_val(&args, "--out").unwrap_or_default();
            std::process::exit(runner::reminimise(sc, &ctx, index, &clause, &known, &out));
        }
        "outbox" => {
            let out = arg_val(&args, "--out").unwrap_or_else(|| "/dev/stdout".into());
            env::install();
            let v = outbox::emit(seed);
            env::uninstall();
            if let Err(e) = std::fs::write(&out, serde_json::to_string(&v).unwrap()) {
                eprintln!("harness: cannot write {}: {}", out, e);
                std::process::exit(2);
            }
        }
        "digest" => {
            // prints one line per run: run index, set, digest of (event list, observations, judgement)
            let prop = args.get(2).cloned().unwrap_or_default();
            let sc = match scenarios::lookup(&prop) {
                Some(s) => s,
                None => std::process::exit(2),
            };
            let runs: u64 = arg_val(&args, "--runs").and_then(|s| s.parse().ok()).unwrap_or(200);
            let tier = match arg_val(&args, "--tier").as_deref() {
                Some("thorough") => Tier::Thorough,
                _ => Tier::Quick,
            };
            let ctx = std::sync::Arc::new(gen::GenCtx { verif_seed: seed, tier, inbox: vec![] });
            let next = std::sync::Arc::new(std::sync::atomic::AtomicU64::new(0));
            let res = std::sync::Arc::new(std::sync::Mutex::new(std::collections::BTreeMap::new()));
            let mut hs = vec![];
            for _ in 0..workers.max(1) {
                let (ctx, next, res) = (ctx.clone(), next.clone(), res.clone());
                hs.push(std::thread::Builder::new().stack_size(64 << 20).spawn(move || {
                    env::install();
                    loop {
                        let i = next.fetch_add(1, std::sync::atomic::Ordering::Relaxed);
                        if i >= runs {
                            break;
                        }
                        let run = match (sc.gen)(&ctx, i) {
                            Some(r) => r,
                            None => continue,
                        };
                        let rs = runner::run_set(&run);
                        if !(rs == runner::this_set() || (rs == "any" && runner::this_set() == "A")) {
                            continue;
                        }
                        let (obs, j) = runner::exec_obs_and_judge(sc, &run);
                        let mut h = prng::str_hash(&serde_json::to_string(&run).unwrap());
                        // v1.public signatures carry real RSA-PSS salt and observe-mode builds real OS
                        // entropy: for those runs only the event list and the violation count are digested
                        // (which faults are applicable at a given text position depends on signature bytes)
                        let uncontrolled = run.events.iter().any(|e| match e {
                            model::Op::NewBuilder { proto, .. } | model::Op::CoreIssue { proto, .. } => *proto == model::Proto::V1P,
                            model::Op::Build { observe: true, .. } | model::Op::DrawKeys { .. } | model::Op::ConcurrentIssuers { .. } => true,
                            _ => false,
                        });
                        if !uncontrolled {
                            h = prng::mix(&[h, prng::str_hash(&serde_json::to_string(&obs).unwrap())]);
                            h = prng::mix(&[h, prng::str_hash(&j.trace.join("|")), j.evaluations]);
                        }
                        h = prng::mix(&[h, j.violations.len() as u64]);
                        res.lock().unwrap().insert(i, h);
                    }
                    env::uninstall();
                }).unwrap());
            }
            for h in hs {
                h.join().unwrap();
            }
            for (i, h) in res.lock().unwrap().iter() {
                println!("{} {:016x}", i, h);
            }
        }
        _ => {
            eprintln!("unknown command");
            std::process::exit(2);
        }
    }
}
