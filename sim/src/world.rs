//! The executor: turns an event list into observations by driving the *real* library (all
//! cryptography, base64, serde_json and `time` are the real thing) with the simulated clock, entropy
//! and hash seed installed behind the seams.  Pure function of the `Run` and the code under test
//! (except v1.public signature bytes — RSA-PSS salt — and `observe`-mode entropy, see DESIGN §11).

use crate::arena::Arena;
use crate::env::{self, EntropyMode};
use crate::faults;
use crate::keys::{self, KeyMat};
use crate::model::*;
use rusty_paseto::prelude::*;
use std::collections::BTreeMap;
use std::collections::HashMap;
use std::convert::TryFrom;

// -------------------------------------------------------------------------------------------------
// error mapping (by match on the public enums, never on message strings)

#[allow(unreachable_patterns)]
pub fn map_paseto_err(e: &PasetoError) -> Outcome {
    let (variant, class): (&str, ErrClass) = match e {
        PasetoError::PasetoCipherError(_) => ("PasetoCipherError", ErrClass::Cipher),
        PasetoError::Cryption => ("Cryption", ErrClass::Cipher),
        PasetoError::InvalidKey => ("InvalidKey", ErrClass::Cipher),
        PasetoError::Signature => ("Signature", ErrClass::Cipher),
        PasetoError::KeyRejected { .. } => ("KeyRejected", ErrClass::Cipher),
        PasetoError::Cipher { .. } => ("Cipher", ErrClass::Cipher),
        #[cfg(feature = "set_a")]
        PasetoError::RsaCipher { .. } => ("RsaCipher", ErrClass::Cipher),
        #[cfg(feature = "set_b")]
        PasetoError::ECSDAError { .. } => ("ECSDAError", ErrClass::Cipher),
        PasetoError::InvalidLength { .. } => ("InvalidLength", ErrClass::Cipher),
        PasetoError::InvalidSignature => ("InvalidSignature", ErrClass::Cipher),
        PasetoError::TryFromSlice { .. } => ("TryFromSlice", ErrClass::Cipher),
        PasetoError::IncorrectSize => ("IncorrectSize", ErrClass::Cipher),
        PasetoError::WrongHeader => ("WrongHeader", ErrClass::Cipher),
        PasetoError::FooterInvalid => ("FooterInvalid", ErrClass::Cipher),
        PasetoError::PayloadBase64Decode { .. } => ("PayloadBase64Decode", ErrClass::Cipher),
        PasetoError::Utf8Error { .. } => ("Utf8Error", ErrClass::Utf8),
        PasetoError::ChaChaCipherError => ("ChaChaCipherError", ErrClass::Cipher),
        PasetoError::Infallibale { .. } => ("Infallibale", ErrClass::Other),
        PasetoError::FromUtf8Error { .. } => ("FromUtf8Error", ErrClass::Utf8),
        // a variant this harness does not know yet: everything PasetoError can say except the two UTF-8
        // variants is an authentication / format / key error
        _ => ("UnknownPasetoError", ErrClass::Cipher),
    };
    Outcome::Err { class, variant: variant.to_string(), args: vec![] }
}

#[allow(unreachable_patterns)]
pub fn map_claim_err(e: &PasetoClaimError) -> Outcome {
    let (variant, args): (&str, Vec<String>) = match e {
        PasetoClaimError::Expired => ("Expired", vec![]),
        PasetoClaimError::UseBeforeAvailable(a) => ("UseBeforeAvailable", vec![a.clone()]),
        PasetoClaimError::RFC3339Date(a) => ("RFC3339Date", vec![a.clone()]),
        PasetoClaimError::Missing(a) => ("Missing", vec![a.clone()]),
        PasetoClaimError::Unexpected(a) => ("Unexpected", vec![a.clone()]),
        PasetoClaimError::CustomValidation(a) => ("CustomValidation", vec![a.clone()]),
        PasetoClaimError::Invalid(a, b, c) => ("Invalid", vec![a.clone(), b.clone(), c.clone()]),
        PasetoClaimError::Reserved(a) => ("Reserved", vec![a.clone()]),
        PasetoClaimError::DuplicateTopLevelPayloadClaim(a) => ("DuplicateTopLevelPayloadClaim", vec![a.clone()]),
        _ => ("UnknownClaimError", vec![]),
    };
    Outcome::Err { class: ErrClass::Claim, variant: variant.to_string(), args }
}

#[allow(unreachable_patterns)]
pub fn map_parser_err(e: &GenericParserError) -> Outcome {
    match e {
        GenericParserError::ClaimError { source } => map_claim_err(source),
        GenericParserError::CipherError { source } => map_paseto_err(source),
        GenericParserError::PayloadJsonError { .. } => {
            Outcome::Err { class: ErrClass::Json, variant: "PayloadJsonError".into(), args: vec![] }
        }
        _ => Outcome::Err { class: ErrClass::Other, variant: "UnknownParserError".into(), args: vec![] },
    }
}

#[allow(unreachable_patterns)]
pub fn map_builder_err(e: &GenericBuilderError) -> Outcome {
    match e {
        GenericBuilderError::ClaimError { source } => map_claim_err(source),
        GenericBuilderError::CipherError { source } => map_paseto_err(source),
        GenericBuilderError::PayloadJsonError { .. } => {
            Outcome::Err { class: ErrClass::Json, variant: "PayloadJsonError".into(), args: vec![] }
        }
        GenericBuilderError::BadEmailAddress(a) => {
            Outcome::Err { class: ErrClass::Builder, variant: "BadEmailAddress".into(), args: vec![a.clone()] }
        }
        GenericBuilderError::DuplicateTopLevelPayloadClaim(a) => Outcome::Err {
            class: ErrClass::Builder,
            variant: "DuplicateTopLevelPayloadClaim".into(),
            args: vec![a.clone()],
        },
        _ => Outcome::Err { class: ErrClass::Other, variant: "UnknownBuilderError".into(), args: vec![] },
    }
}

// -------------------------------------------------------------------------------------------------
// claims: one macro applies a ClaimSpec to any object with a `set_claim` / `check_claim` /
// `validate_claim` method (they are inherent generic methods, so duck typing via macro it is).

macro_rules! apply_claim {
    ($t:expr, $m:ident, $spec:expr, $arena:expr $(, $extra:expr)?) => {{
        macro_rules! go {
            ($c:expr) => {{
                let _ = $t.$m($c $(, $extra)?);
                true
            }};
        }
        macro_rules! go_res {
            ($r:expr) => {
                match $r {
                    Ok(c) => go!(c),
                    Err(_) => false,
                }
            };
        }
        match $spec {
            ClaimSpec::Iss(s) => go!(IssuerClaim::from($arena.str(s))),
            ClaimSpec::Sub(s) => go!(SubjectClaim::from($arena.str(s))),
            ClaimSpec::Aud(s) => go!(AudienceClaim::from($arena.str(s))),
            ClaimSpec::Jti(s) => go!(TokenIdentifierClaim::from($arena.str(s))),
            // both constructors of the time claims are exercised (chosen by the parity of the text length,
            // so that a run stays a pure function of its event list)
            ClaimSpec::Exp(s) if s.len() % 2 == 0 => go_res!(ExpirationClaim::try_from(s.clone())),
            ClaimSpec::Nbf(s) if s.len() % 2 == 0 => go_res!(NotBeforeClaim::try_from(s.clone())),
            ClaimSpec::Iat(s) if s.len() % 2 == 0 => go_res!(IssuedAtClaim::try_from(s.clone())),
            ClaimSpec::Exp(s) => go_res!(ExpirationClaim::try_from(s.as_str())),
            ClaimSpec::Nbf(s) => go_res!(NotBeforeClaim::try_from(s.as_str())),
            ClaimSpec::Iat(s) => go_res!(IssuedAtClaim::try_from(s.as_str())),
            // CustomClaim::try_from(&str): the key-only constructor (its value is the empty string)
            ClaimSpec::Custom { key, value } if value.as_str() == Some("") && key.len() % 2 == 1 => go_res!(CustomClaim::try_from(key.as_str())),
            ClaimSpec::Custom { key, value } => go_res!(CustomClaim::try_from((key.clone(), value.clone()))),
            ClaimSpec::CustomRef { key, value } => go_res!(CustomClaim::try_from((key.as_str(), value.clone()))),
            ClaimSpec::Bare { key, value } => go!(BareClaim { key: key.clone(), value: value.clone() }),
            ClaimSpec::DefaultOf(k) => match k.as_str() {
                "iss" => go!(IssuerClaim::default()),
                "sub" => go!(SubjectClaim::default()),
                "aud" => go!(AudienceClaim::default()),
                "jti" => go!(TokenIdentifierClaim::default()),
                "exp" => go!(ExpirationClaim::default()),
                "nbf" => go!(NotBeforeClaim::default()),
                "iat" => go!(IssuedAtClaim::default()),
                _ => false,
            },
            ClaimSpec::Native { key, val } => match val {
                NativeVal::I64(x) => go_res!(CustomClaim::try_from((key.clone(), *x))),
                NativeVal::U64(x) => go_res!(CustomClaim::try_from((key.clone(), *x))),
                NativeVal::I32(x) => go_res!(CustomClaim::try_from((key.clone(), *x))),
                NativeVal::U8(x) => go_res!(CustomClaim::try_from((key.clone(), *x))),
                NativeVal::F64(x) => go_res!(CustomClaim::try_from((key.clone(), *x))),
                NativeVal::Bool(x) => go_res!(CustomClaim::try_from((key.clone(), *x))),
                NativeVal::Str(x) => go_res!(CustomClaim::try_from((key.as_str(), x.clone()))),
                NativeVal::OptStr(x) => go_res!(CustomClaim::try_from((key.clone(), x.clone()))),
                NativeVal::VecI64(x) => go_res!(CustomClaim::try_from((key.clone(), x.clone()))),
                NativeVal::VecStr(x) => go_res!(CustomClaim::try_from((key.as_str(), x.clone()))),
                NativeVal::Unit => go_res!(CustomClaim::try_from((key.clone(), ()))),
                NativeVal::Tuple(a, b, c) => go_res!(CustomClaim::try_from((key.clone(), (*a, b.clone(), *c)))),
                NativeVal::Map(x) => go_res!(CustomClaim::try_from((key.clone(), x.clone()))),
                NativeVal::Rec(x) => go_res!(CustomClaim::try_from((key.clone(), x.clone()))),
                NativeVal::Unserialisable => go_res!(CustomClaim::try_from((key.clone(), Unserialisable))),
            },
        }
    }};
}

/// A value that cannot be serialised.
pub struct Unserialisable;
impl serde::Serialize for Unserialisable {
    fn serialize<S: serde::Serializer>(&self, _s: S) -> Result<S::Ok, S::Error> {
        Err(serde::ser::Error::custom("this value has no JSON form"))
    }
}

/// A caller-defined claim type: the trait `PasetoClaim` is public, and nothing requires an
/// implementation to serialise as a {key: value} map.
pub struct BareClaim {
    pub key: String,
    pub value: serde_json::Value,
}
impl PasetoClaim for BareClaim {
    fn get_key(&self) -> &str {
        &self.key
    }
}
impl serde::Serialize for BareClaim {
    fn serialize<S: serde::Serializer>(&self, s: S) -> Result<S::Ok, S::Error> {
        self.value.serialize(s)
    }
}

// -------------------------------------------------------------------------------------------------
// verifiers

pub trait VerifierObj {
    fn deliver(&mut self, token: &'static str) -> Outcome;
    /// `parse(token, key)` with another key on the same (long-lived) object; None = key kind not applicable
    fn deliver_key(&mut self, token: &'static str, km: &KeyMat, arena: &Arena) -> Option<Outcome>;
    /// re-configure the live object; `slot` is the validator slot a new validator registration gets
    fn reconfigure(&mut self, op: &VOp, slot: usize, arena: &Arena) -> bool;
    /// set footer (which = 0) or assertion (which = 1) to exactly this borrowed string
    fn set_str(&mut self, which: u8, s: &'static str) -> bool;
}

fn ok_str(r: Result<String, PasetoError>) -> Outcome {
    match r {
        Ok(s) => Outcome::OkStr(s),
        Err(e) => map_paseto_err(&e),
    }
}
fn ok_json(r: Result<serde_json::Value, GenericParserError>) -> Outcome {
    match r {
        Ok(v) => Outcome::OkJson(v),
        Err(e) => map_parser_err(&e),
    }
}

struct CoreV<K: 'static, const ASSERT: bool, F, M>
where
    F: Fn(&'static str, &'static K, Option<Footer<'static>>, Option<ImplicitAssertion<'static>>) -> Outcome,
    M: Fn(&KeyMat, &Arena) -> Option<&'static K>,
{
    key: &'static K,
    footer: Option<&'static str>,
    assertion: Option<&'static str>,
    f: F,
    mk: M,
}
impl<K, const A: bool, F, M> VerifierObj for CoreV<K, A, F, M>
where
    F: Fn(&'static str, &'static K, Option<Footer<'static>>, Option<ImplicitAssertion<'static>>) -> Outcome,
    M: Fn(&KeyMat, &Arena) -> Option<&'static K>,
{
    fn deliver(&mut self, token: &'static str) -> Outcome {
        (self.f)(token, self.key, self.footer.map(Footer::from), self.assertion.map(ImplicitAssertion::from))
    }
    fn deliver_key(&mut self, token: &'static str, km: &KeyMat, arena: &Arena) -> Option<Outcome> {
        let k = (self.mk)(km, arena)?;
        Some((self.f)(token, k, self.footer.map(Footer::from), self.assertion.map(ImplicitAssertion::from)))
    }
    fn reconfigure(&mut self, op: &VOp, _slot: usize, arena: &Arena) -> bool {
        match op {
            VOp::SetFooter(f) => {
                self.footer = Some(arena.str(f));
                true
            }
            VOp::SetAssertion(a) if A => {
                self.assertion = Some(arena.str(a));
                true
            }
            _ => false,
        }
    }
    fn set_str(&mut self, which: u8, s: &'static str) -> bool {
        match which {
            0 => {
                self.footer = Some(s);
                true
            }
            _ if A => {
                self.assertion = Some(s);
                true
            }
            _ => false,
        }
    }
}

struct ParserV<P, K: 'static, F, M, R, S>
where
    F: FnMut(&mut P, &'static str, &'static K) -> Outcome,
    M: Fn(&KeyMat, &Arena) -> Option<&'static K>,
    R: Fn(&mut P, &VOp, usize, &Arena) -> bool,
    S: Fn(&mut P, u8, &'static str) -> bool,
{
    parser: P,
    key: &'static K,
    f: F,
    mk: M,
    rc: R,
    ss: S,
}
impl<P, K, F, M, R, S> VerifierObj for ParserV<P, K, F, M, R, S>
where
    F: FnMut(&mut P, &'static str, &'static K) -> Outcome,
    M: Fn(&KeyMat, &Arena) -> Option<&'static K>,
    R: Fn(&mut P, &VOp, usize, &Arena) -> bool,
    S: Fn(&mut P, u8, &'static str) -> bool,
{
    fn set_str(&mut self, which: u8, s: &'static str) -> bool {
        (self.ss)(&mut self.parser, which, s)
    }
    fn deliver(&mut self, token: &'static str) -> Outcome {
        (self.f)(&mut self.parser, token, self.key)
    }
    fn deliver_key(&mut self, token: &'static str, km: &KeyMat, arena: &Arena) -> Option<Outcome> {
        let k = (self.mk)(km, arena)?;
        Some((self.f)(&mut self.parser, token, k))
    }
    fn reconfigure(&mut self, op: &VOp, slot: usize, arena: &Arena) -> bool {
        (self.rc)(&mut self.parser, op, slot, arena)
    }
}

/// re-configuration of a live GenericParser / PasetoParser
macro_rules! reconf {
    ($P:ty, $assert:tt) => {
        |p: &mut $P, op: &VOp, slot: usize, arena: &Arena| -> bool {
            match op {
                VOp::CheckClaim(c) => apply_claim!(p, check_claim, c, arena),
                VOp::ValidateClaim(vs) => {
                    if slot >= env::NUM_SLOTS || vs.via != Via::Validate {
                        false
                    } else {
                        apply_claim!(p, validate_claim, &vs.claim, arena, env::slot_fn(slot))
                    }
                }
                VOp::SetFooter(f) => {
                    p.set_footer(Footer::from(arena.str(f)));
                    true
                }
                VOp::SetAssertion(_a) => reconf!(@assert $assert, p, _a, arena),
                VOp::SetFooterPrefixOfCurrent(_) | VOp::SetAssertionPrefixOfCurrent(_) => false,
            }
        }
    };
    (@setstr $P:ty, yes) => {
        |p: &mut $P, which: u8, s: &'static str| -> bool {
            if which == 0 {
                p.set_footer(Footer::from(s));
            } else {
                p.set_implicit_assertion(ImplicitAssertion::from(s));
            }
            true
        }
    };
    (@setstr $P:ty, no) => {
        |p: &mut $P, which: u8, s: &'static str| -> bool {
            if which == 0 {
                p.set_footer(Footer::from(s));
                true
            } else {
                false
            }
        }
    };
    (@assert yes, $p:ident, $a:ident, $arena:ident) => {{
        $p.set_implicit_assertion(ImplicitAssertion::from($arena.str($a)));
        true
    }};
    (@assert no, $p:ident, $a:ident, $arena:ident) => {
        false
    };
}

/// configure a GenericParser / PasetoParser from a VerifierSpec
macro_rules! configure_parser {
    ($p:ident, $spec:ident, $arena:ident, $notes:ident, $ok:ident, assert = $assert:tt, generic = $generic:tt) => {
        if let Some(f) = &$spec.footer {
            $p.set_footer(Footer::from($arena.str(f)));
        }
        configure_parser!(@assert $assert, $p, $spec, $arena, $notes, $ok);
        if $spec.expect_via_extend {
            configure_parser!(@extend_expect $generic, $p, $spec, $arena, $notes, $ok);
        } else {
            for c in &$spec.expect {
                if !apply_claim!($p, check_claim, c, $arena) {
                    $notes.push(format!("expectation constructor refused key {:?}", c.key()));
                    $ok = false;
                }
            }
        }
        for (i, vs) in $spec.validators.iter().enumerate() {
            if i >= env::NUM_SLOTS {
                $notes.push("too many validators".into());
                $ok = false;
                break;
            }
            match vs.via {
                Via::Validate => {
                    if !apply_claim!($p, validate_claim, &vs.claim, $arena, env::slot_fn(i)) {
                        $notes.push(format!("validator claim constructor refused key {:?}", vs.claim.key()));
                        $ok = false;
                    }
                }
                Via::ExtendOnly | Via::ExtendBoth => {
                    configure_parser!(@extend_val $generic, $p, vs, i, $arena, $notes, $ok);
                }
            }
        }
    };
    (@assert yes, $p:ident, $spec:ident, $arena:ident, $notes:ident, $ok:ident) => {
        if let Some(a) = &$spec.assertion {
            $p.set_implicit_assertion(ImplicitAssertion::from($arena.str(a)));
        }
    };
    (@assert no, $p:ident, $spec:ident, $arena:ident, $notes:ident, $ok:ident) => {
        if $spec.assertion.is_some() {
            $notes.push("assertion not applicable to v1/v2".into());
            $ok = false;
        }
    };
    (@extend_expect yes, $p:ident, $spec:ident, $arena:ident, $notes:ident, $ok:ident) => {
        // one single-entry map per expectation, in the order given: a multi-entry std HashMap would be
        // iterated in RandomState order by the library and make the run irreproducible
        for c in &$spec.expect {
            let mut m: HashMap<String, Box<dyn erased_serde::Serialize>> = HashMap::new();
            match CustomClaim::try_from((c.key().to_string(), c.value())) {
                Ok(cc) => {
                    m.insert(c.key().to_string(), Box::new(cc));
                }
                Err(_) => {
                    // registered keys cannot be wrapped in a CustomClaim: use a one-entry map
                    let mut one = BTreeMap::new();
                    one.insert(c.key().to_string(), c.value());
                    m.insert(c.key().to_string(), Box::new(one));
                }
            }
            $p.extend_check_claims(m);
        }
    };
    (@extend_expect no, $p:ident, $spec:ident, $arena:ident, $notes:ident, $ok:ident) => {
        $notes.push("extend_check_claims is GenericParser-only".into());
        $ok = false;
    };
    (@extend_val yes, $p:ident, $vs:ident, $i:ident, $arena:ident, $notes:ident, $ok:ident) => {
        let key = $vs.claim.key().to_string();
        if $vs.via == Via::ExtendBoth {
            let mut m: HashMap<String, Box<dyn erased_serde::Serialize>> = HashMap::new();
            let mut one = BTreeMap::new();
            one.insert(key.clone(), $vs.claim.value());
            m.insert(key.clone(), Box::new(one));
            $p.extend_check_claims(m);
        }
        let mut vm: ValidatorMap = HashMap::new();
        let f = env::slot_fn($i);
        vm.insert(key, Box::new(move |k: &str, v: &serde_json::Value| f(k, v)));
        $p.extend_validation_claims(vm);
    };
    (@extend_val no, $p:ident, $vs:ident, $i:ident, $arena:ident, $notes:ident, $ok:ident) => {
        $notes.push("extend_validation_claims is GenericParser-only".into());
        $ok = false;
    };
}

type MkV = Result<(Box<dyn VerifierObj>, Vec<String>), String>;

macro_rules! local_verifier {
    ($V:ident, $assert:tt, $spec:ident, $km:ident, $arena:ident) => {{
        let sym = match $km.sym() {
            Some(k) => k,
            None => return Err("key kind not applicable (need symmetric)".into()),
        };
        let key: &'static PasetoSymmetricKey<$V, Local> =
            $arena.alloc(PasetoSymmetricKey::<$V, Local>::from(Key::<32>::from(sym)));
        let mk = |km: &KeyMat, arena: &Arena| -> Option<&'static PasetoSymmetricKey<$V, Local>> {
            km.sym().map(|s| arena.alloc(PasetoSymmetricKey::<$V, Local>::from(Key::<32>::from(s))))
        };
        let mut notes: Vec<String> = vec![];
        #[allow(unused_mut)]
        let mut ok = true;
        match $spec.layer {
            Layer::Core => {
                if !$spec.expect.is_empty() || !$spec.validators.is_empty() {
                    return Err("core layer has no expectations/validators".into());
                }
                let footer = $spec.footer.as_ref().map(|f| $arena.str(f));
                let assertion = $spec.assertion.as_ref().map(|f| $arena.str(f));
                let b: Box<dyn VerifierObj> = local_verifier!(@core $V, $assert, key, footer, assertion, mk);
                if ok { Ok((b, notes)) } else { Err(notes.join("; ")) }
            }
            Layer::Generic => {
                // `new()` and `default()` are documented as the same thing; both are used
                let mut p = if $spec.hash_seed & 1 == 1 { GenericParser::<$V, Local>::new() } else { GenericParser::<$V, Local>::default() };
                configure_parser!(p, $spec, $arena, notes, ok, assert = $assert, generic = yes);
                if !ok {
                    return Err(notes.join("; "));
                }
                let b: Box<dyn VerifierObj> = Box::new(ParserV {
                    parser: p,
                    key,
                    f: |p: &mut GenericParser<'static, 'static, $V, Local>, t: &'static str, k: &'static PasetoSymmetricKey<$V, Local>| ok_json(p.parse(t, k)),
                    mk,
                    rc: reconf!(GenericParser<'static, 'static, $V, Local>, $assert),
                    ss: reconf!(@setstr GenericParser<'static, 'static, $V, Local>, $assert),
                });
                Ok((b, notes))
            }
            Layer::Batteries => {
                let mut p = if $spec.default_validators {
                    PasetoParser::<$V, Local>::default()
                } else {
                    PasetoParser::<$V, Local>::new()
                };
                configure_parser!(p, $spec, $arena, notes, ok, assert = $assert, generic = no);
                if !ok {
                    return Err(notes.join("; "));
                }
                let b: Box<dyn VerifierObj> = Box::new(ParserV {
                    parser: p,
                    key,
                    f: |p: &mut PasetoParser<'static, $V, Local>, t: &'static str, k: &'static PasetoSymmetricKey<$V, Local>| ok_json(p.parse(t, k)),
                    mk,
                    rc: reconf!(PasetoParser<'static, $V, Local>, $assert),
                    ss: reconf!(@setstr PasetoParser<'static, $V, Local>, $assert),
                });
                Ok((b, notes))
            }
        }
    }};
    (@core $V:ident, yes, $key:ident, $footer:ident, $assertion:ident, $mk:ident) => {
        Box::new(CoreV::<_, true, _, _> {
            key: $key,
            footer: $footer,
            assertion: $assertion,
            f: |t, k: &'static PasetoSymmetricKey<$V, Local>, f, a| ok_str(Paseto::<$V, Local>::try_decrypt(t, k, f, a)),
            mk: $mk,
        })
    };
    (@core $V:ident, no, $key:ident, $footer:ident, $assertion:ident, $mk:ident) => {{
        if $assertion.is_some() {
            return Err("assertion not applicable to v1/v2".into());
        }
        Box::new(CoreV::<_, false, _, _> {
            key: $key,
            footer: $footer,
            assertion: None,
            f: |t, k: &'static PasetoSymmetricKey<$V, Local>, f, _a| ok_str(Paseto::<$V, Local>::try_decrypt(t, k, f)),
            mk: $mk,
        })
    }};
}

#[allow(unused_macros)]
macro_rules! public_verifier {
    ($V:ident, $assert:tt, $spec:ident, $key:ident, $arena:ident, $mkf:expr) => {{
        let key: &'static PasetoAsymmetricPublicKey<'static, $V, Public> = $key;
        let mk: fn(&KeyMat, &Arena) -> Option<&'static PasetoAsymmetricPublicKey<'static, $V, Public>> = $mkf;
        let mut notes: Vec<String> = vec![];
        #[allow(unused_mut)]
        let mut ok = true;
        match $spec.layer {
            Layer::Core => {
                if !$spec.expect.is_empty() || !$spec.validators.is_empty() {
                    return Err("core layer has no expectations/validators".into());
                }
                let footer = $spec.footer.as_ref().map(|f| $arena.str(f));
                let assertion = $spec.assertion.as_ref().map(|f| $arena.str(f));
                let b: Box<dyn VerifierObj> = public_verifier!(@core $V, $assert, key, footer, assertion, mk);
                if ok { Ok((b, notes)) } else { Err(notes.join("; ")) }
            }
            Layer::Generic => {
                let mut p = if $spec.hash_seed & 1 == 1 { GenericParser::<$V, Public>::new() } else { GenericParser::<$V, Public>::default() };
                configure_parser!(p, $spec, $arena, notes, ok, assert = $assert, generic = yes);
                if !ok {
                    return Err(notes.join("; "));
                }
                let b: Box<dyn VerifierObj> = Box::new(ParserV {
                    parser: p,
                    key,
                    f: |p: &mut GenericParser<'static, 'static, $V, Public>, t: &'static str, k: &'static PasetoAsymmetricPublicKey<'static, $V, Public>| ok_json(p.parse(t, k)),
                    mk,
                    rc: reconf!(GenericParser<'static, 'static, $V, Public>, $assert),
                    ss: reconf!(@setstr GenericParser<'static, 'static, $V, Public>, $assert),
                });
                Ok((b, notes))
            }
            Layer::Batteries => {
                let mut p = if $spec.default_validators {
                    PasetoParser::<$V, Public>::default()
                } else {
                    PasetoParser::<$V, Public>::new()
                };
                configure_parser!(p, $spec, $arena, notes, ok, assert = $assert, generic = no);
                if !ok {
                    return Err(notes.join("; "));
                }
                let b: Box<dyn VerifierObj> = Box::new(ParserV {
                    parser: p,
                    key,
                    f: |p: &mut PasetoParser<'static, $V, Public>, t: &'static str, k: &'static PasetoAsymmetricPublicKey<'static, $V, Public>| ok_json(p.parse(t, k)),
                    mk,
                    rc: reconf!(PasetoParser<'static, $V, Public>, $assert),
                    ss: reconf!(@setstr PasetoParser<'static, $V, Public>, $assert),
                });
                Ok((b, notes))
            }
        }
    }};
    (@core $V:ident, yes, $key:ident, $footer:ident, $assertion:ident, $mk:ident) => {
        Box::new(CoreV::<_, true, _, _> {
            key: $key,
            footer: $footer,
            assertion: $assertion,
            f: |t, k: &'static PasetoAsymmetricPublicKey<'static, $V, Public>, f, a| ok_str(Paseto::<$V, Public>::try_verify(t, k, f, a)),
            mk: $mk,
        })
    };
    (@core $V:ident, no, $key:ident, $footer:ident, $assertion:ident, $mk:ident) => {{
        if $assertion.is_some() {
            return Err("assertion not applicable to v1/v2".into());
        }
        Box::new(CoreV::<_, false, _, _> {
            key: $key,
            footer: $footer,
            assertion: None,
            f: |t, k: &'static PasetoAsymmetricPublicKey<'static, $V, Public>, f, _a| ok_str(Paseto::<$V, Public>::try_verify(t, k, f)),
            mk: $mk,
        })
    }};
}

pub fn make_verifier(spec: &VerifierSpec, km: &KeyMat, arena: &Arena) -> MkV {
    if !spec.proto.available() {
        return Err(format!("{} not compiled into this binary", spec.proto.name()));
    }
    env::set_hash_base(spec.hash_seed);
    let r = make_verifier_inner(spec, km, arena);
    env::set_hash_base(0);
    r
}

#[cfg(feature = "set_a")]
fn mk_v1p(km: &KeyMat, arena: &Arena) -> Option<&'static PasetoAsymmetricPublicKey<'static, V1, Public>> {
    let pb = km.public_for(Proto::V1P)?;
    let bytes: &'static [u8] = arena.bytes(&pb);
    Some(arena.alloc(PasetoAsymmetricPublicKey::<V1, Public>::from(bytes)))
}
#[cfg(feature = "set_a")]
fn mk_v2p(km: &KeyMat, arena: &Arena) -> Option<&'static PasetoAsymmetricPublicKey<'static, V2, Public>> {
    let pb = km.public_for(Proto::V2P)?;
    if pb.len() != 32 {
        return None;
    }
    let k32: &'static Key<32> = arena.alloc(Key::<32>::from(pb.as_slice()));
    Some(arena.alloc(PasetoAsymmetricPublicKey::<V2, Public>::from(k32)))
}
#[cfg(feature = "set_a")]
fn mk_v4p(km: &KeyMat, arena: &Arena) -> Option<&'static PasetoAsymmetricPublicKey<'static, V4, Public>> {
    let pb = km.public_for(Proto::V4P)?;
    if pb.len() != 32 {
        return None;
    }
    let k32: &'static Key<32> = arena.alloc(Key::<32>::from(pb.as_slice()));
    Some(arena.alloc(PasetoAsymmetricPublicKey::<V4, Public>::from(k32)))
}
#[cfg(feature = "set_b")]
fn mk_v3p(km: &KeyMat, arena: &Arena) -> Option<&'static PasetoAsymmetricPublicKey<'static, V3, Public>> {
    let pb = km.public_for(Proto::V3P)?;
    if pb.len() != 49 {
        return None;
    }
    let k49: &'static Key<49> = arena.alloc(Key::<49>::from(pb.as_slice()));
    match PasetoAsymmetricPublicKey::<V3, Public>::try_from(k49) {
        Ok(k) => Some(arena.alloc(k)),
        Err(_) => None,
    }
}

fn make_verifier_inner(spec: &VerifierSpec, km: &KeyMat, arena: &Arena) -> MkV {
    match spec.proto {
        Proto::V1L => local_verifier!(V1, no, spec, km, arena),
        Proto::V2L => local_verifier!(V2, no, spec, km, arena),
        Proto::V3L => local_verifier!(V3, yes, spec, km, arena),
        Proto::V4L => local_verifier!(V4, yes, spec, km, arena),
        #[cfg(feature = "set_a")]
        Proto::V1P => {
            let key = mk_v1p(km, arena).ok_or("key kind not applicable (need RSA public)")?;
            public_verifier!(V1, no, spec, key, arena, mk_v1p)
        }
        #[cfg(feature = "set_a")]
        Proto::V2P => {
            let key = mk_v2p(km, arena).ok_or("key kind not applicable (need a 32-byte Ed25519 public key)")?;
            public_verifier!(V2, no, spec, key, arena, mk_v2p)
        }
        #[cfg(feature = "set_a")]
        Proto::V4P => {
            let key = mk_v4p(km, arena).ok_or("key kind not applicable (need a 32-byte Ed25519 public key)")?;
            public_verifier!(V4, yes, spec, key, arena, mk_v4p)
        }
        #[cfg(feature = "set_b")]
        Proto::V3P => {
            let key = mk_v3p(km, arena).ok_or("key kind not applicable / constructor refused the P-384 public key")?;
            public_verifier!(V3, yes, spec, key, arena, mk_v3p)
        }
        #[allow(unreachable_patterns)]
        _ => Err("protocol not compiled".into()),
    }
}

// -------------------------------------------------------------------------------------------------
// issuers

pub trait BuilderObj {
    /// returns false when the operation is not applicable to this builder type / was refused by a
    /// claim constructor
    fn op(&mut self, op: &BOp, arena: &Arena) -> bool;
    fn build(&mut self, km: &KeyMat) -> Outcome;
    /// `build_payload_from_claims()` where the builder type offers it
    fn peek(&mut self) -> Option<Result<String, String>> {
        None
    }
}

fn tok(r: Result<String, GenericBuilderError>) -> Outcome {
    match r {
        Ok(s) => Outcome::OkStr(s),
        Err(e) => map_builder_err(&e),
    }
}

fn harness_key_err(msg: &str) -> Outcome {
    Outcome::Err { class: ErrClass::Other, variant: "HarnessKeyNotApplicable".into(), args: vec![msg.to_string()] }
}

macro_rules! builder_impl {
    ($name:ident, $ty:ty, generic, $assert:tt, $build:expr) => {
        struct $name($ty);
        impl BuilderObj for $name {
            fn op(&mut self, op: &BOp, arena: &Arena) -> bool {
                let b = &mut self.0;
                match op {
                    BOp::ExtendClaims(m) => {
                        // single-entry maps in key order (see @extend_expect)
                        for (k, v) in m {
                            let mut hm: HashMap<String, Box<dyn erased_serde::Serialize>> = HashMap::new();
                            hm.insert(k.clone(), Box::new(v.clone()));
                            b.extend_claims(hm);
                        }
                        true
                    }
                    BOp::SetClaim(c) => apply_claim!(b, set_claim, c, arena),
                    BOp::RemoveClaim(k) => {
                        b.remove_claim(k);
                        true
                    }
                    BOp::Ack => false,
                    BOp::SetFooter(f) => {
                        b.set_footer(Footer::from(arena.str(f)));
                        true
                    }
                    BOp::SetAssertion(_a) => builder_impl!(@assert $assert, b, _a, arena),
                    BOp::PeekPayload => true,
                }
            }
            fn build(&mut self, km: &KeyMat) -> Outcome {
                let f: fn(&mut $ty, &KeyMat) -> Outcome = $build;
                f(&mut self.0, km)
            }
            fn peek(&mut self) -> Option<Result<String, String>> {
                Some(self.0.build_payload_from_claims().map_err(|e| e.to_string()))
            }
        }
    };
    ($name:ident, $ty:ty, batteries, $assert:tt, $build:expr) => {
        struct $name($ty);
        impl BuilderObj for $name {
            fn op(&mut self, op: &BOp, arena: &Arena) -> bool {
                let b = &mut self.0;
                match op {
                    BOp::ExtendClaims(_) => false,
                    BOp::SetClaim(c) => apply_claim!(b, set_claim, c, arena),
                    BOp::RemoveClaim(_) => false,
                    BOp::Ack => {
                        b.set_no_expiration_danger_acknowledged();
                        true
                    }
                    BOp::SetFooter(f) => {
                        b.set_footer(Footer::from(arena.str(f)));
                        true
                    }
                    BOp::SetAssertion(_a) => builder_impl!(@assert $assert, b, _a, arena),
                    BOp::PeekPayload => false,
                }
            }
            fn build(&mut self, km: &KeyMat) -> Outcome {
                let f: fn(&mut $ty, &KeyMat) -> Outcome = $build;
                f(&mut self.0, km)
            }
        }
    };
    (@assert yes, $b:ident, $a:ident, $arena:ident) => {{
        $b.set_implicit_assertion(ImplicitAssertion::from($arena.str($a)));
        true
    }};
    (@assert no, $b:ident, $a:ident, $arena:ident) => {
        false
    };
}

macro_rules! local_builders {
    ($gname:ident, $bname:ident, $V:ident, $assert:tt) => {
        builder_impl!($gname, GenericBuilder<'static, 'static, $V, Local>, generic, $assert, |b, km| {
            match km.sym() {
                Some(k) => tok(b.try_encrypt(&PasetoSymmetricKey::<$V, Local>::from(Key::<32>::from(k)))),
                None => harness_key_err("need symmetric key"),
            }
        });
        builder_impl!($bname, PasetoBuilder<'static, $V, Local>, batteries, $assert, |b, km| {
            match km.sym() {
                Some(k) => tok(b.build(&PasetoSymmetricKey::<$V, Local>::from(Key::<32>::from(k)))),
                None => harness_key_err("need symmetric key"),
            }
        });
    };
}
local_builders!(GenB1L, BatB1L, V1, no);
local_builders!(GenB2L, BatB2L, V2, no);
local_builders!(GenB3L, BatB3L, V3, yes);
local_builders!(GenB4L, BatB4L, V4, yes);

#[allow(unused_macros)]
macro_rules! slice_public_builders {
    ($gname:ident, $bname:ident, $V:ident, $P:expr, $assert:tt, k64) => {
        // generic layer: the key handed over as `&Key<64>` (the batteries layer below keeps the slice form)
        builder_impl!($gname, GenericBuilder<'static, 'static, $V, Public>, generic, $assert, |b, km| {
            match km.private_for($P) {
                Some(k) if k.len() == 64 => {
                    let k64 = Key::<64>::from(k.as_slice());
                    tok(b.try_sign(&PasetoAsymmetricPrivateKey::<$V, Public>::from(&k64)))
                }
                Some(k) => tok(b.try_sign(&PasetoAsymmetricPrivateKey::<$V, Public>::from(k.as_slice()))),
                None => harness_key_err("need private key"),
            }
        });
        slice_public_builders!(@bat $bname, $V, $P, $assert);
    };
    ($gname:ident, $bname:ident, $V:ident, $P:expr, $assert:tt) => {
        builder_impl!($gname, GenericBuilder<'static, 'static, $V, Public>, generic, $assert, |b, km| {
            match km.private_for($P) {
                Some(k) => tok(b.try_sign(&PasetoAsymmetricPrivateKey::<$V, Public>::from(k.as_slice()))),
                None => harness_key_err("need private key"),
            }
        });
        slice_public_builders!(@bat $bname, $V, $P, $assert);
    };
    (@bat $bname:ident, $V:ident, $P:expr, $assert:tt) => {
        builder_impl!($bname, PasetoBuilder<'static, $V, Public>, batteries, $assert, |b, km| {
            match km.private_for($P) {
                Some(k) => tok(b.build(&PasetoAsymmetricPrivateKey::<$V, Public>::from(k.as_slice()))),
                None => harness_key_err("need private key"),
            }
        });
    };
}
#[cfg(feature = "set_a")]
slice_public_builders!(GenB1P, BatB1P, V1, Proto::V1P, no);
#[cfg(feature = "set_a")]
slice_public_builders!(GenB2P, BatB2P, V2, Proto::V2P, no, k64);
#[cfg(feature = "set_a")]
slice_public_builders!(GenB4P, BatB4P, V4, Proto::V4P, yes, k64);

#[cfg(feature = "set_b")]
builder_impl!(GenB3P, GenericBuilder<'static, 'static, V3, Public>, generic, yes, |b, km| {
    match km.private_for(Proto::V3P) {
        Some(k) if k.len() == 48 => {
            let k48 = Key::<48>::from(k.as_slice());
            tok(b.try_sign(&PasetoAsymmetricPrivateKey::<V3, Public>::from(&k48)))
        }
        _ => harness_key_err("need 48-byte private key"),
    }
});
#[cfg(feature = "set_b")]
builder_impl!(BatB3P, PasetoBuilder<'static, V3, Public>, batteries, yes, |b, km| {
    match km.private_for(Proto::V3P) {
        Some(k) if k.len() == 48 => {
            let k48 = Key::<48>::from(k.as_slice());
            tok(b.build(&PasetoAsymmetricPrivateKey::<V3, Public>::from(&k48)))
        }
        _ => harness_key_err("need 48-byte private key"),
    }
});

pub fn make_builder(proto: Proto, layer: Layer) -> Result<Box<dyn BuilderObj>, String> {
    if !proto.available() {
        return Err(format!("{} not compiled into this binary", proto.name()));
    }
    let b: Box<dyn BuilderObj> = match (proto, layer) {
        (_, Layer::Core) => return Err("core layer has no builder object".into()),
        (Proto::V1L, Layer::Generic) => Box::new(GenB1L(GenericBuilder::default())),
        (Proto::V1L, Layer::Batteries) => Box::new(BatB1L(PasetoBuilder::default())),
        (Proto::V2L, Layer::Generic) => Box::new(GenB2L(GenericBuilder::new())),
        (Proto::V2L, Layer::Batteries) => Box::new(BatB2L(PasetoBuilder::default())),
        (Proto::V3L, Layer::Generic) => Box::new(GenB3L(GenericBuilder::new())),
        (Proto::V3L, Layer::Batteries) => Box::new(BatB3L(PasetoBuilder::default())),
        (Proto::V4L, Layer::Generic) => Box::new(GenB4L(GenericBuilder::default())),
        (Proto::V4L, Layer::Batteries) => Box::new(BatB4L(PasetoBuilder::default())),
        #[cfg(feature = "set_a")]
        (Proto::V1P, Layer::Generic) => Box::new(GenB1P(GenericBuilder::default())),
        #[cfg(feature = "set_a")]
        (Proto::V1P, Layer::Batteries) => Box::new(BatB1P(PasetoBuilder::default())),
        #[cfg(feature = "set_a")]
        (Proto::V2P, Layer::Generic) => Box::new(GenB2P(GenericBuilder::default())),
        #[cfg(feature = "set_a")]
        (Proto::V2P, Layer::Batteries) => Box::new(BatB2P(PasetoBuilder::default())),
        #[cfg(feature = "set_a")]
        (Proto::V4P, Layer::Generic) => Box::new(GenB4P(GenericBuilder::new())),
        #[cfg(feature = "set_a")]
        (Proto::V4P, Layer::Batteries) => Box::new(BatB4P(PasetoBuilder::default())),
        #[cfg(feature = "set_b")]
        (Proto::V3P, Layer::Generic) => Box::new(GenB3P(GenericBuilder::new())),
        #[cfg(feature = "set_b")]
        (Proto::V3P, Layer::Batteries) => Box::new(BatB3P(PasetoBuilder::default())),
        #[allow(unreachable_patterns)]
        _ => return Err("protocol not compiled".into()),
    };
    Ok(b)
}

// -------------------------------------------------------------------------------------------------
// core-layer issue

/// the 6 orders of (0 = set_payload, 1 = set_footer, 2 = set_implicit_assertion)
pub const SETTER_ORDERS: [[u8; 3]; 6] = [[0, 1, 2], [1, 0, 2], [1, 2, 0], [2, 1, 0], [0, 2, 1], [2, 0, 1]];

pub fn core_issue(
    proto: Proto,
    km: &KeyMat,
    nonce: &[u8],
    payload: &str,
    footer: Option<&str>,
    assertion: Option<&str>,
    order: u8,
    rebuild: bool,
) -> Result<Outcome, String> {
    let steps = SETTER_ORDERS[(order as usize) % 6];
    if !proto.available() {
        return Err(format!("{} not compiled into this binary", proto.name()));
    }
    if assertion.is_some() && !proto.has_assertion() {
        return Err("assertion not applicable".into());
    }
    macro_rules! local {
        ($V:ident, $assert:tt, $nonce_ty:ty) => {{
            let sym = km.sym().ok_or("need symmetric key")?;
            let key = PasetoSymmetricKey::<$V, Local>::from(Key::<32>::from(sym));
            let nk: $nonce_ty = <$nonce_ty>::from(nonce);
            let n = PasetoNonce::<$V, Local>::from(&nk);
            let mut b = Paseto::<$V, Local>::builder();
            for st in steps {
                match st {
                    0 => {
                        b.set_payload(Payload::from(payload));
                    }
                    1 => {
                        if let Some(f) = footer {
                            b.set_footer(Footer::from(f));
                        }
                    }
                    _ => {
                        local!(@assert $assert, b);
                    }
                }
            }
            // order 6..11: the token is issued from a `.clone()` of the configured builder, 12..17: from a copy
            #[allow(clippy::clone_on_copy)]
            let mut b = match order / 6 {
                1 => b.clone(),
                2 => {
                    let c = b;
                    c
                }
                _ => b,
            };
            if rebuild {
                // the same core builder object issues a second token: only the payload is set again
                let _ = b.try_encrypt(&key, &n);
                b.set_payload(Payload::from(payload));
            }
            Ok(ok_str(b.try_encrypt(&key, &n)))
        }};
        (@assert yes, $b:ident) => {
            if let Some(a) = assertion {
                $b.set_implicit_assertion(ImplicitAssertion::from(a));
            }
        };
        (@assert no, $b:ident) => {};
    }
    #[allow(unused_macros)]
    macro_rules! public_slice {
        ($V:ident, $assert:tt) => {{
            let pk = km.private_for(proto).ok_or("need private key")?;
            let key = PasetoAsymmetricPrivateKey::<$V, Public>::from(pk.as_slice());
            let mut b = Paseto::<$V, Public>::builder();
            for st in steps {
                match st {
                    0 => {
                        b.set_payload(Payload::from(payload));
                    }
                    1 => {
                        if let Some(f) = footer {
                            b.set_footer(Footer::from(f));
                        }
                    }
                    _ => {
                        local!(@assert $assert, b);
                    }
                }
            }
            #[allow(clippy::clone_on_copy)]
            let mut b = match order / 6 {
                1 => b.clone(),
                2 => {
                    let c = b;
                    c
                }
                _ => b,
            };
            if rebuild {
                let _ = b.try_sign(&key);
                b.set_payload(Payload::from(payload));
            }
            Ok(ok_str(b.try_sign(&key)))
        }};
    }
    match proto {
        Proto::V1L => {
            if nonce.len() != 32 {
                return Err("nonce must be 32 bytes".into());
            }
            local!(V1, no, Key<32>)
        }
        Proto::V2L => match nonce.len() {
            24 => local!(V2, no, Key<24>),
            32 => local!(V2, no, Key<32>),
            _ => Err("nonce must be 24 or 32 bytes".into()),
        },
        Proto::V3L => {
            if nonce.len() != 32 {
                return Err("nonce must be 32 bytes".into());
            }
            local!(V3, yes, Key<32>)
        }
        Proto::V4L => {
            if nonce.len() != 32 {
                return Err("nonce must be 32 bytes".into());
            }
            local!(V4, yes, Key<32>)
        }
        #[cfg(feature = "set_a")]
        Proto::V1P => public_slice!(V1, no),
        #[cfg(feature = "set_a")]
        Proto::V2P => public_slice!(V2, no),
        #[cfg(feature = "set_a")]
        Proto::V4P => public_slice!(V4, yes),
        #[cfg(feature = "set_b")]
        Proto::V3P => {
            let pk = km.private_for(proto).ok_or("need private key")?;
            if pk.len() != 48 {
                return Err("need 48-byte private key".into());
            }
            let k48 = Key::<48>::from(pk.as_slice());
            let key = PasetoAsymmetricPrivateKey::<V3, Public>::from(&k48);
            let mut b = Paseto::<V3, Public>::builder();
            for st in steps {
                match st {
                    0 => {
                        b.set_payload(Payload::from(payload));
                    }
                    1 => {
                        if let Some(f) = footer {
                            b.set_footer(Footer::from(f));
                        }
                    }
                    _ => {
                        if let Some(a) = assertion {
                            b.set_implicit_assertion(ImplicitAssertion::from(a));
                        }
                    }
                }
            }
            #[allow(clippy::clone_on_copy)]
            let mut b = match order / 6 {
                1 => b.clone(),
                2 => {
                    let c = b;
                    c
                }
                _ => b,
            };
            if rebuild {
                let _ = b.try_sign(&key);
                b.set_payload(Payload::from(payload));
            }
            Ok(ok_str(b.try_sign(&key)))
        }
        #[allow(unreachable_patterns)]
        _ => Err("protocol not compiled".into()),
    }
}

pub fn key_parse(n: usize, text: &str) -> Option<Outcome> {
    fn m<const N: usize>(text: &str) -> Outcome {
        match Key::<N>::try_from(text) {
            Ok(k) => Outcome::OkStr(hex::encode(k.as_ref())),
            Err(e) => Outcome::Err { class: ErrClass::Other, variant: format!("FromHexError::{:?}", e), args: vec![] },
        }
    }
    Some(match n {
        24 => m::<24>(text),
        32 => m::<32>(text),
        48 => m::<48>(text),
        49 => m::<49>(text),
        64 => m::<64>(text),
        _ => return None,
    })
}

// -------------------------------------------------------------------------------------------------
// the world

struct VerifierSlot {
    spec: VerifierSpec,
    obj: Option<Box<dyn VerifierObj>>,
    /// backing strings of the footer / assertion last handed to the live object through Reconfigure
    cur_footer: Option<&'static str>,
    cur_assertion: Option<&'static str>,
}

pub struct World {
    builders: BTreeMap<u32, (Proto, Layer, Box<dyn BuilderObj>)>,
    verifiers: BTreeMap<u32, VerifierSlot>,
    msgs: BTreeMap<u32, &'static str>,
    keys: Vec<KeyMat>,
    /// MUST stay the last field: everything above may hold references into it.
    arena: Arena,
}

fn reads_obs(r: Vec<(&'static str, i128)>) -> Vec<(String, Ns)> {
    r.into_iter().map(|(s, t)| (s.to_string(), Ns(t))).collect()
}

fn validator_table(spec: &VerifierSpec) -> BTreeMap<usize, env::Behaviour> {
    spec.validators.iter().enumerate().map(|(i, v)| (i, v.behaviour.clone())).collect()
}

impl World {
    pub fn new(keys: &[KeySpec]) -> Self {
        World {
            builders: BTreeMap::new(),
            verifiers: BTreeMap::new(),
            msgs: BTreeMap::new(),
            keys: keys.iter().map(keys::resolve).collect(),
            arena: Arena::new(),
        }
    }

    fn deliver_to(&mut self, obj: &mut Box<dyn VerifierObj>, spec: &VerifierSpec, text: &'static str, now: i128, ticks: &[Ns], key: Option<usize>) -> Option<DeliverObs> {
        let t: Vec<i128> = ticks.iter().map(|x| x.0).collect();
        env::set_clock(now, &t);
        env::set_validators(validator_table(spec));
        if spec.default_validators && spec.layer == Layer::Batteries {
            // let the wall clock visibly advance between two parses of a default parser (25 us), so that a
            // reading carried over from an earlier parse is recognisable as such (env::now)
            let t0 = std::time::Instant::now();
            while t0.elapsed() < std::time::Duration::from_micros(25) {
                std::hint::spin_loop();
            }
        }
        let outcome = match key {
            None => match env::guarded(|| obj.deliver(text)) {
                Ok(o) => o,
                Err(at) => Outcome::Panic { at },
            },
            Some(k) => {
                let km = self.keys.get(k)?.clone();
                let arena = &self.arena;
                match env::guarded(|| obj.deliver_key(text, &km, arena)) {
                    Ok(Some(o)) => o,
                    Ok(None) => return None,
                    Err(at) => Outcome::Panic { at },
                }
            }
        };
        let calls = env::take_validator_calls()
            .into_iter()
            .map(|c| CallObs { slot: c.slot, key: c.key, value: c.value, returned_ok: c.returned_ok })
            .collect();
        let mut reads = reads_obs(env::take_clock_reads());
        for site in env::take_stale_reads() {
            reads.push((format!("STALE:{}", site), Ns(0)));
        }
        Some(DeliverObs { outcome, calls, reads })
    }

    fn fresh_and_deliver(&mut self, spec: &VerifierSpec, text: &'static str, now: i128, ticks: &[Ns], key: Option<usize>) -> Option<DeliverObs> {
        let km = self.keys.get(spec.key)?.clone();
        let made = env::guarded(|| make_verifier(spec, &km, &self.arena));
        match made {
            Ok(Ok((mut obj, _))) => self.deliver_to(&mut obj, spec, text, now, ticks, key),
            Ok(Err(_)) => None,
            Err(at) => Some(DeliverObs { outcome: Outcome::Panic { at }, calls: vec![], reads: vec![] }),
        }
    }

    pub fn step(&mut self, op: &Op) -> Obs {
        match op {
            Op::NewBuilder { b, proto, layer, now_ns, hash_seed } => {
                env::set_hash_base(*hash_seed);
                // every further clock read during construction is served 1 ns later
                env::set_clock(now_ns.0, &[1, 1, 1, 1, 1, 1, 1, 1]);
                let made = env::guarded(|| make_builder(*proto, *layer));
                let reads = reads_obs(env::take_clock_reads());
                match made {
                    Ok(Ok(obj)) => {
                        self.builders.insert(*b, (*proto, *layer, obj));
                        Obs::NewBuilder { reads, panic: None }
                    }
                    Ok(Err(e)) => Obs::Skipped(e),
                    Err(at) => Obs::NewBuilder { reads, panic: Some(at) },
                }
            }
            Op::BuilderOp { b, op } => {
                let arena = &self.arena;
                match self.builders.get_mut(b) {
                    None => Obs::Skipped("no such builder".into()),
                    Some((_, _, obj)) => match env::guarded(|| if *op == BOp::PeekPayload { (obj.op(op, arena), obj.peek()) } else { (obj.op(op, arena), None) }) {
                        Ok((applied, peek)) => Obs::BuilderOp { applied, panic: None, peek },
                        Err(at) => {
                            self.builders.remove(b);
                            Obs::BuilderOp { applied: false, panic: Some(at), peek: None }
                        }
                    },
                }
            }
            Op::Build { b, key, out, entropy_seed, entropy_fail, observe, now_ns } => {
                let km = match self.keys.get(*key) {
                    Some(k) => k.clone(),
                    None => return Obs::Skipped("no such key".into()),
                };
                let (_, _, obj) = match self.builders.get_mut(b) {
                    Some(x) => x,
                    None => return Obs::Skipped("no such builder".into()),
                };
                env::set_clock(now_ns.0, &[]);
                env::set_entropy(
                    if *observe { EntropyMode::Observe } else { EntropyMode::Simulate },
                    *entropy_seed,
                    entropy_fail,
                );
                let result = match env::guarded(|| obj.build(&km)) {
                    Ok(o) => o,
                    Err(at) => {
                        self.builders.remove(b);
                        Outcome::Panic { at }
                    }
                };
                let draws = env::take_entropy_draws()
                    .into_iter()
                    .map(|d| DrawObs {
                        // the OS bytes are uncontrolled: they are recorded only in the observe arm, where
                        // they are what the library continues with
                        real_hex: if *observe { hex::encode(&d.real) } else { String::new() },
                        served_hex: hex::encode(&d.served),
                        failed: d.failed,
                    })
                    .collect();
                let reads = reads_obs(env::take_clock_reads());
                env::set_entropy_script(vec![]);
                if let Outcome::OkStr(t) = &result {
                    let s = self.arena.str(t);
                    self.msgs.insert(*out, s);
                }
                Obs::Build { result, draws, reads }
            }
            Op::CoreIssue { proto, key, nonce_hex, payload, footer, assertion, out, order, rebuild } => {
                let km = match self.keys.get(*key) {
                    Some(k) => k.clone(),
                    None => return Obs::Skipped("no such key".into()),
                };
                let nonce = match hex::decode(nonce_hex) {
                    Ok(n) => n,
                    Err(_) => return Obs::Skipped("bad nonce hex".into()),
                };
                env::set_clock(0, &[]);
                let r = env::guarded(|| core_issue(*proto, &km, &nonce, payload, footer.as_deref(), assertion.as_deref(), *order, *rebuild));
                match r {
                    Ok(Ok(o)) => {
                        if let Outcome::OkStr(t) = &o {
                            let s = self.arena.str(t);
                            self.msgs.insert(*out, s);
                        }
                        Obs::Issue { result: o }
                    }
                    Ok(Err(e)) => Obs::Skipped(e),
                    Err(at) => Obs::Issue { result: Outcome::Panic { at } },
                }
            }
            Op::Fault { src, out, kind, other } => {
                let s = match self.msgs.get(src) {
                    Some(s) => *s,
                    None => return Obs::Skipped("no such message".into()),
                };
                let o = other.and_then(|o| self.msgs.get(&o).cloned());
                let r = faults::apply(s, kind, o);
                if let Some(t) = &r {
                    let st = self.arena.str(t);
                    self.msgs.insert(*out, st);
                }
                Obs::Fault { text: r }
            }
            Op::Literal { out, text } => {
                let s = self.arena.str(text);
                self.msgs.insert(*out, s);
                Obs::Literal
            }
            Op::Imported { out, text, .. } => {
                let s = self.arena.str(text);
                self.msgs.insert(*out, s);
                Obs::Literal
            }
            Op::NewVerifier { v, spec } => {
                let km = match self.keys.get(spec.key) {
                    Some(k) => k.clone(),
                    None => return Obs::Skipped("no such key".into()),
                };
                // a clock read while the verifier is CONSTRUCTED is served a far-away instant (1975): the time
                // rules are about the moment of each parse
                env::set_clock(157_766_400 * crate::civil::NS, &[]);
                let made = env::guarded(|| make_verifier(spec, &km, &self.arena));
                let _ = env::take_clock_reads();
                match made {
                    Ok(Ok((obj, notes))) => {
                        self.verifiers.insert(*v, VerifierSlot { spec: spec.clone(), obj: Some(obj), cur_footer: None, cur_assertion: None });
                        Obs::NewVerifier { ok: true, notes }
                    }
                    Ok(Err(e)) => Obs::Skipped(e),
                    Err(at) => Obs::NewVerifier { ok: false, notes: vec![format!("panic at {}", at)] },
                }
            }
            Op::Reconfigure { v, op } => {
                let arena = &self.arena;
                let slot = match self.verifiers.get_mut(v) {
                    Some(s) => s,
                    None => return Obs::Skipped("no such verifier".into()),
                };
                let obj = match slot.obj.as_mut() {
                    Some(o) => o,
                    None => return Obs::Skipped("verifier object was discarded".into()),
                };
                let vslot = slot.spec.validators.len();
                let mut resolved: Option<VOp> = None;
                let applied = match op {
                    VOp::SetFooterPrefixOfCurrent(n) | VOp::SetAssertionPrefixOfCurrent(n) => {
                        let which: u8 = if matches!(op, VOp::SetFooterPrefixOfCurrent(_)) { 0 } else { 1 };
                        let cur = if which == 0 { slot.cur_footer } else { slot.cur_assertion };
                        match cur {
                            Some(s) if *n <= s.len() && s.is_char_boundary(*n) => {
                                let sub: &'static str = &s[..*n];
                                let ok = env::guarded(|| obj.set_str(which, sub)).unwrap_or(false);
                                if ok {
                                    resolved = Some(if which == 0 { VOp::SetFooter(sub.to_string()) } else { VOp::SetAssertion(sub.to_string()) });
                                }
                                ok
                            }
                            _ => false,
                        }
                    }
                    VOp::SetFooter(f) => {
                        let s = arena.str(f);
                        let ok = env::guarded(|| obj.set_str(0, s)).unwrap_or(false);
                        if ok {
                            slot.cur_footer = Some(s);
                        }
                        ok
                    }
                    VOp::SetAssertion(a) => {
                        let s = arena.str(a);
                        let ok = env::guarded(|| obj.set_str(1, s)).unwrap_or(false);
                        if ok {
                            slot.cur_assertion = Some(s);
                        }
                        ok
                    }
                    _ => match env::guarded(|| obj.reconfigure(op, vslot, arena)) {
                        Ok(a) => a,
                        Err(_) => false,
                    },
                };
                if applied {
                    match resolved.as_ref().unwrap_or(op) {
                        VOp::CheckClaim(c) => slot.spec.expect.push(c.clone()),
                        VOp::ValidateClaim(vs) => slot.spec.validators.push(vs.clone()),
                        VOp::SetFooter(f) => slot.spec.footer = Some(f.clone()),
                        VOp::SetAssertion(a) => slot.spec.assertion = Some(a.clone()),
                        _ => {}
                    }
                }
                if let Some(r) = resolved {
                    return Obs::ReconfigureResolved { applied, as_op: r };
                }
                Obs::Reconfigure { applied }
            }
            Op::Deliver { msg, to, now_ns, ticks, twin, control, key } => {
                let text = match self.msgs.get(msg) {
                    Some(s) => *s,
                    None => return Obs::Skipped("no such message".into()),
                };
                let (spec, mut obj) = match self.verifiers.get_mut(to) {
                    Some(slot) => {
                        let spec = slot.spec.clone();
                        match slot.obj.take() {
                            Some(o) => (spec, o),
                            None => {
                                // the object was discarded after a panic: rebuild it
                                let km = self.keys[spec.key].clone();
                                match env::guarded(|| make_verifier(&spec, &km, &self.arena)) {
                                    Ok(Ok((o, _))) => (spec, o),
                                    _ => return Obs::Skipped("verifier could not be rebuilt".into()),
                                }
                            }
                        }
                    }
                    None => return Obs::Skipped("no such verifier".into()),
                };
                let main = match self.deliver_to(&mut obj, &spec, text, now_ns.0, ticks, *key) {
                    Some(m) => m,
                    None => {
                        self.verifiers.get_mut(to).unwrap().obj = Some(obj);
                        return Obs::Skipped("key kind not applicable".into());
                    }
                };
                if !main.outcome.is_panic() {
                    self.verifiers.get_mut(to).unwrap().obj = Some(obj);
                }
                let twin_obs = if *twin {
                    let mut ts = spec.clone();
                    ts.hash_seed = spec.hash_seed ^ 0x5bd1_e995_9e37_79b9;
                    self.fresh_and_deliver(&ts, text, now_ns.0, ticks, *key)
                } else {
                    None
                };
                let control_obs = match control {
                    Some(cs) => self.fresh_and_deliver(cs, text, now_ns.0, ticks, None),
                    None => None,
                };
                Obs::Deliver { main, twin: twin_obs, control: control_obs }
            }
            Op::ForeignIssue { proto, key, nonce_hex, payload_hex, footer, assertion, out } => {
                let km = match self.keys.get(*key) {
                    Some(k) => k.clone(),
                    None => return Obs::Skipped("no such key".into()),
                };
                let (nonce, payload) = match (hex::decode(nonce_hex), hex::decode(payload_hex)) {
                    (Ok(n), Ok(p)) if n.len() == 32 => (n, p),
                    _ => return Obs::Skipped("bad hex".into()),
                };
                let mut n32 = [0u8; 32];
                n32.copy_from_slice(&nonce);
                match crate::foreign::issue(*proto, &km, &n32, &payload, footer.as_deref(), assertion.as_deref()) {
                    Some(t) => {
                        let s = self.arena.str(&t);
                        self.msgs.insert(*out, s);
                        Obs::ForeignIssue { issued: true }
                    }
                    None => Obs::ForeignIssue { issued: false },
                }
            }
            Op::RecoverKey { msg, signer, assertion, with_pk, recid, slot } => {
                let text = match self.msgs.get(msg) {
                    Some(t) => *t,
                    None => return Obs::Skipped("no such message".into()),
                };
                let signer_pk = match self.keys.get(*signer).and_then(|k| k.public_for(Proto::V3P)) {
                    Some(p) => p,
                    None => return Obs::Skipped("signer has no P-384 public key".into()),
                };
                let rec = crate::foreign::recover_p384(text, &signer_pk, assertion.as_deref(), *with_pk, *recid);
                if let (Some(pk), true) = (&rec, *slot < self.keys.len()) {
                    self.keys[*slot] = KeyMat::RawPublic(pk.clone());
                }
                Obs::RecoverKey { public_hex: rec.map(hex::encode) }
            }
            Op::ScriptEntropy { draws } => {
                env::set_entropy_script(draws.iter().filter_map(|d| hex::decode(d).ok()).collect());
                Obs::Scripted
            }
            Op::ConcurrentIssuers { proto, layer, key, threads, builds_each, draws_each } => {
                let km = match self.keys.get(*key) {
                    Some(k) => k.clone(),
                    None => return Obs::Skipped("no such key".into()),
                };
                if !proto.is_local() || !proto.available() {
                    return Obs::Skipped("local protocols only".into());
                }
                let (proto, layer, builds_each, draws_each) = (*proto, *layer, *builds_each, *draws_each);
                let results: Vec<(Vec<Vec<u8>>, Vec<String>, u32, Vec<[u8; 32]>)> = std::thread::scope(|s| {
                    let hs: Vec<_> = (0..*threads)
                        .map(|_| {
                            let km = km.clone();
                            s.spawn(move || {
                                env::install();
                                let arena = Arena::new();
                                let mut nonces = vec![];
                                let mut tokens = vec![];
                                let mut failed = 0u32;
                                let mut draws = vec![];
                                env::set_hash_base(1);
                                env::set_clock(1_700_000_000 * crate::civil::NS, &[]);
                                if let Ok(Ok(mut obj)) = env::guarded(|| make_builder(proto, layer)) {
                                    let _ = env::guarded(|| obj.op(&BOp::SetClaim(ClaimSpec::Custom { key: "data".into(), value: serde_json::json!("same") }), &arena));
                                    for k in 0..builds_each {
                                        env::set_entropy(EntropyMode::Observe, 0, &[]);
                                        match env::guarded(|| obj.build(&km)) {
                                            Ok(Outcome::OkStr(t)) => {
                                                if let Some(tk) = crate::faults::Tok::parse(&t) {
                                                    let n = proto.nonce_len();
                                                    if tk.payload.len() >= n {
                                                        nonces.push(tk.payload[..n].to_vec());
                                                    }
                                                }
                                                tokens.push(t);
                                            }
                                            _ => failed += 1,
                                        }
                                        if k % 1024 == 0 {
                                            let _ = env::take_entropy_draws();
                                            let _ = env::take_clock_reads();
                                        }
                                    }
                                }
                                env::set_entropy(EntropyMode::Observe, 0, &[]);
                                for k in 0..draws_each {
                                    if let Ok(Ok(b)) = env::guarded(|| rusty_paseto::core::Key::<32>::try_new_random().map(|key| *key)) {
                                        draws.push(b);
                                    }
                                    if k % 4096 == 0 {
                                        let _ = env::take_entropy_draws();
                                    }
                                }
                                let _ = env::take_entropy_draws();
                                env::uninstall();
                                (nonces, tokens, failed, draws)
                            })
                        })
                        .collect();
                    hs.into_iter().filter_map(|h| h.join().ok()).collect()
                });
                let mut ns: std::collections::HashSet<Vec<u8>> = std::collections::HashSet::new();
                let mut ts: std::collections::HashSet<String> = std::collections::HashSet::new();
                let mut ds: std::collections::HashSet<[u8; 32]> = std::collections::HashSet::new();
                let (mut builds_ok, mut builds_failed, mut draws_ok) = (0u32, 0u32, 0u32);
                for (n, t, f, d) in results {
                    builds_ok += t.len() as u32;
                    builds_failed += f;
                    draws_ok += d.len() as u32;
                    ns.extend(n);
                    ts.extend(t);
                    ds.extend(d);
                }
                Obs::Concurrent { builds_ok, builds_failed, distinct_nonces: ns.len() as u32, distinct_tokens: ts.len() as u32, draws_ok, distinct_draws: ds.len() as u32 }
            }
            Op::DrawKeys { n } => {
                env::set_entropy(EntropyMode::Observe, 0, &[]);
                let n = *n as usize;
                let mut seen: std::collections::HashSet<[u8; 32]> = std::collections::HashSet::with_capacity(n);
                let mut ones = [0u32; 256];
                let mut first: Option<[u8; 32]> = None;
                let mut varies = [false; 32];
                let (mut ok, mut failed) = (0u32, 0u32);
                for k in 0..n {
                    match env::guarded(|| rusty_paseto::core::Key::<32>::try_new_random().map(|key| *key)) {
                        Ok(Ok(bytes)) => {
                            ok += 1;
                            seen.insert(bytes);
                            for (i, b) in bytes.iter().enumerate() {
                                for bit in 0..8 {
                                    ones[i * 8 + bit] += ((b >> bit) & 1) as u32;
                                }
                                if let Some(f) = &first {
                                    if f[i] != *b {
                                        varies[i] = true;
                                    }
                                }
                            }
                            if first.is_none() {
                                first = Some(bytes);
                            }
                        }
                        _ => failed += 1,
                    }
                    if k % 4096 == 0 {
                        let _ = env::take_entropy_draws();
                    }
                }
                let _ = env::take_entropy_draws();
                let constant_positions = if ok >= 2 { varies.iter().filter(|v| !**v).count() as u32 } else { 0 };
                // |ones - n/2| in units of sigma = sqrt(n)/2, times 100
                let worst = if ok > 0 {
                    let half = ok as f64 / 2.0;
                    let sigma = (ok as f64).sqrt() / 2.0;
                    ones.iter().map(|o| (((*o as f64 - half).abs() / sigma) * 100.0) as u32).max().unwrap_or(0)
                } else {
                    0
                };
                Obs::Draws { ok, failed, distinct: seen.len() as u32, constant_positions, worst_bit_dev_centisigma: worst }
            }
            Op::KeyParse { n, text } => match env::guarded(|| key_parse(*n, text)) {
                Ok(Some(o)) => Obs::KeyParse { outcome: o },
                Ok(None) => Obs::Skipped("unsupported key size".into()),
                Err(at) => Obs::KeyParse { outcome: Outcome::Panic { at } },
            },
        }
    }

    pub fn msg_text(&self, id: u32) -> Option<&str> {
        self.msgs.get(&id).map(|s| &**s)
    }
}

/// Executes a run from scratch.  The caller must have installed the simulated environment.
pub fn execute(run: &Run) -> Vec<Obs> {
    let mut w = World::new(&run.keys);
    let mut out = Vec::with_capacity(run.events.len());
    for ev in &run.events {
        out.push(w.step(ev));
    }
    out
}
