//! Key material resolved from `KeySpec`s.  Ed25519 and P-384 pairs are derived in the harness with
//! `ed25519-dalek` / `p384`; RSA pairs are committed fixtures.

use crate::model::{KeySpec, Proto};

/// fixtures 0..=6 are RSA-2048 (the only size v1.public signs with); 7 and 8 are 3072/4096-bit pairs used
/// only as *verifier* keys against byzantine text
pub const RSA_2048_FIXTURES: usize = 7;
pub static RSA_FIXTURES: [(&[u8], &[u8]); 9] = [
    (include_bytes!("../../fixtures/rsa/k0.pk8"), include_bytes!("../../fixtures/rsa/k0.pub.der")),
    (include_bytes!("../../fixtures/rsa/k1.pk8"), include_bytes!("../../fixtures/rsa/k1.pub.der")),
    (include_bytes!("../../fixtures/rsa/k2.pk8"), include_bytes!("../../fixtures/rsa/k2.pub.der")),
    (include_bytes!("../../fixtures/rsa/k3.pk8"), include_bytes!("../../fixtures/rsa/k3.pub.der")),
    (include_bytes!("../../fixtures/rsa/k4.pk8"), include_bytes!("../../fixtures/rsa/k4.pub.der")),
    // the shortest and the longest PKCS#8 encodings an RSA-2048 key can have (1215 and 1219 bytes: leading
    // sign octets of d, dP, dQ, qInv)
    (include_bytes!("../../fixtures/rsa/k1215.pk8"), include_bytes!("../../fixtures/rsa/k1215.pub.der")),
    (include_bytes!("../../fixtures/rsa/k1219.pk8"), include_bytes!("../../fixtures/rsa/k1219.pub.der")),
    (include_bytes!("../../fixtures/rsa/k3072.pk8"), include_bytes!("../../fixtures/rsa/k3072.pub.der")),
    (include_bytes!("../../fixtures/rsa/k4096.pk8"), include_bytes!("../../fixtures/rsa/k4096.pub.der")),
];

#[derive(Clone, Debug)]
pub enum KeyMat {
    Sym([u8; 32]),
    Ed { secret64: Vec<u8>, public32: Vec<u8> },
    P384 { secret48: Vec<u8>, public49: Vec<u8> },
    Rsa { pk8: &'static [u8], pubder: &'static [u8] },
    RawPublic(Vec<u8>),
    RawPrivate(Vec<u8>),
    Invalid(String),
}

pub fn ed_from_seed(seed: &[u8; 32]) -> (Vec<u8>, Vec<u8>) {
    let sk = ed25519_dalek::SigningKey::from_bytes(seed);
    let pk = sk.verifying_key();
    (sk.to_keypair_bytes().to_vec(), pk.to_bytes().to_vec())
}

pub fn p384_from_scalar(scalar: &[u8]) -> Option<(Vec<u8>, Vec<u8>)> {
    use p384::elliptic_curve::sec1::ToEncodedPoint;
    if scalar.len() != 48 {
        return None;
    }
    let sk = p384::SecretKey::from_slice(scalar).ok()?;
    let pk = sk.public_key().to_encoded_point(true);
    Some((scalar.to_vec(), pk.as_bytes().to_vec()))
}

pub fn resolve(spec: &KeySpec) -> KeyMat {
    match spec {
        KeySpec::Sym { hex } => match hex::decode(hex) {
            Ok(b) if b.len() == 32 => {
                let mut a = [0u8; 32];
                a.copy_from_slice(&b);
                KeyMat::Sym(a)
            }
            _ => KeyMat::Invalid("sym key must be 32 bytes".into()),
        },
        KeySpec::Ed { seed_hex } => match hex::decode(seed_hex) {
            Ok(b) if b.len() == 32 => {
                let mut a = [0u8; 32];
                a.copy_from_slice(&b);
                let (s, p) = ed_from_seed(&a);
                KeyMat::Ed { secret64: s, public32: p }
            }
            _ => KeyMat::Invalid("ed seed must be 32 bytes".into()),
        },
        KeySpec::P384 { scalar_hex } => match hex::decode(scalar_hex).ok().and_then(|b| p384_from_scalar(&b)) {
            Some((s, p)) => KeyMat::P384 { secret48: s, public49: p },
            None => KeyMat::Invalid("bad p384 scalar".into()),
        },
        KeySpec::Rsa { fixture } => match RSA_FIXTURES.get(*fixture) {
            Some((a, b)) => KeyMat::Rsa { pk8: a, pubder: b },
            None => KeyMat::Invalid("no such rsa fixture".into()),
        },
        KeySpec::RawPublic { hex } => match hex::decode(hex) {
            Ok(b) => KeyMat::RawPublic(b),
            Err(_) => KeyMat::Invalid("bad hex".into()),
        },
        KeySpec::RawPrivate { hex } => match hex::decode(hex) {
            Ok(b) => KeyMat::RawPrivate(b),
            Err(_) => KeyMat::Invalid("bad hex".into()),
        },
    }
}

impl KeyMat {
    pub fn sym(&self) -> Option<[u8; 32]> {
        match self {
            KeyMat::Sym(k) => Some(*k),
            _ => None,
        }
    }
    /// bytes to hand to the *signing* side of `proto`
    pub fn private_for(&self, proto: Proto) -> Option<Vec<u8>> {
        match (self, proto) {
            (KeyMat::Ed { secret64, .. }, Proto::V2P | Proto::V4P) => Some(secret64.clone()),
            (KeyMat::P384 { secret48, .. }, Proto::V3P) => Some(secret48.clone()),
            (KeyMat::Rsa { pk8, .. }, Proto::V1P) => Some(pk8.to_vec()),
            (KeyMat::RawPrivate(b), p) if !p.is_local() => Some(b.clone()),
            _ => None,
        }
    }
    /// bytes to hand to the *verifying* side of `proto`
    pub fn public_for(&self, proto: Proto) -> Option<Vec<u8>> {
        match (self, proto) {
            (KeyMat::Ed { public32, .. }, Proto::V2P | Proto::V4P) => Some(public32.clone()),
            (KeyMat::P384 { public49, .. }, Proto::V3P) => Some(public49.clone()),
            (KeyMat::Rsa { pubder, .. }, Proto::V1P) => Some(pubder.to_vec()),
            (KeyMat::RawPublic(b), p) if !p.is_local() => Some(b.clone()),
            _ => None,
        }
    }
    /// Identity of the key as the *verifier* sees it, for the oracle's "same key?" question.
    pub fn verifier_identity(&self, proto: Proto) -> Option<Vec<u8>> {
        if proto.is_local() {
            self.sym().map(|k| k.to_vec())
        } else {
            self.public_for(proto)
        }
    }
    pub fn issuer_identity(&self, proto: Proto) -> Option<Vec<u8>> {
        if proto.is_local() {
            self.sym().map(|k| k.to_vec())
        } else {
            match (self, proto) {
                (KeyMat::RawPrivate(_), _) => None,
                _ => self.public_for(proto),
            }
        }
    }
}
