//! Shared generator helpers.  Generation is binary-independent: it never looks at which protocols
//! are compiled in (the runner decides afterwards which binary executes a run).

use crate::civil;
use crate::model::*;
use crate::prng::Rng;
use serde_json::{json, Value};

#[derive(Clone, Copy, Debug, PartialEq, Eq)]
pub enum Tier {
    Quick,
    Thorough,
}

pub struct GenCtx {
    pub verif_seed: u64,
    pub tier: Tier,
    pub inbox: Vec<InboxToken>,
}

#[derive(Clone, Debug, serde::Serialize, serde::Deserialize)]
pub struct InboxToken {
    pub proto: Proto,
    pub key: KeySpec,
    pub payload: String,
    pub footer: Option<String>,
    pub assertion: Option<String>,
    pub text: String,
}

/// Accumulates keys and events with stable ids.
pub struct RunBuilder {
    pub run: Run,
    next_msg: u32,
    next_b: u32,
    next_v: u32,
}

impl RunBuilder {
    pub fn new(property: &str, scenario: &str, verif_seed: u64, run: u64) -> Self {
        RunBuilder {
            run: Run {
                v: 1,
                property: property.to_string(),
                scenario: scenario.to_string(),
                set: String::new(),
                verif_seed,
                run,
                keys: vec![],
                events: vec![],
            },
            next_msg: 0,
            next_b: 0,
            next_v: 0,
        }
    }
    pub fn key(&mut self, k: KeySpec) -> usize {
        if let Some(i) = self.run.keys.iter().position(|x| x == &k) {
            return i;
        }
        self.run.keys.push(k);
        self.run.keys.len() - 1
    }
    pub fn msg(&mut self) -> u32 {
        self.next_msg += 1;
        self.next_msg - 1
    }
    pub fn builder_id(&mut self) -> u32 {
        self.next_b += 1;
        self.next_b - 1
    }
    pub fn verifier(&mut self, spec: VerifierSpec) -> u32 {
        let v = self.next_v;
        self.next_v += 1;
        self.run.events.push(Op::NewVerifier { v, spec });
        v
    }
    pub fn push(&mut self, op: Op) {
        self.run.events.push(op);
    }
    pub fn fault(&mut self, src: u32, kind: FaultKind, other: Option<u32>) -> u32 {
        let out = self.msg();
        self.push(Op::Fault { src, out, kind, other });
        out
    }
    pub fn deliver(&mut self, msg: u32, to: u32, now: i128) {
        self.push(Op::Deliver { msg, to, now_ns: Ns(now), ticks: vec![], twin: false, control: None, key: None });
    }
    pub fn finish(self) -> Run {
        self.run
    }
}

// ---------------------------------------------------------------------------------------------
// time domain

pub const T_1971: i128 = 31_536_000 * civil::NS;
/// 9000-01-01T00:00:00Z
pub fn t_9000() -> i128 {
    civil::ns_from_ymd_hms(9000, 1, 1, 0, 0, 0, 0)
}
pub const HOUR: i128 = 3600 * civil::NS;
pub const DAY: i128 = 86_400 * civil::NS;
pub const YEAR: i128 = 365 * DAY;

/// A "present" for a simulated world: mostly around 2020–2040, sometimes at the edges of the domain.
pub fn gen_now(r: &mut Rng) -> i128 {
    let base = match r.below(20) {
        0 => T_1971 + r.range(0, 10 * YEAR),
        1 => t_9000() - r.range(2 * YEAR, 50 * YEAR),
        2 => civil::ns_from_ymd_hms(2024, 2, 29, 23, 59, 59, 0) + r.range(0, 2 * civil::NS),
        3 => civil::ns_from_ymd_hms(2031, 12, 31, 23, 59, 59, 0) + r.range(0, 2 * civil::NS),
        4 => civil::ns_from_ymd_hms(2038, 1, 19, 3, 14, 7, 0) + r.range(-2 * civil::NS, 2 * civil::NS),
        5 => civil::ns_from_ymd_hms(2262, 4, 11, 23, 47, 16, 0) + r.range(-2 * civil::NS, 2 * civil::NS),
        _ => civil::ns_from_ymd_hms(2020, 1, 1, 0, 0, 0, 0) + r.range(0, 20 * YEAR),
    };
    match r.below(6) {
        0 => base - base.rem_euclid(civil::NS),                // whole second
        1 => base - base.rem_euclid(civil::NS) + 1,            // 1 ns past
        2 => base - base.rem_euclid(civil::NS) + 999_999_999,  // 1 ns before the next second
        3 => base - base.rem_euclid(1_000_000),                // coarse ms clock
        _ => base,
    }
}

// ---------------------------------------------------------------------------------------------
// keys

pub fn sym_key(r: &mut Rng) -> KeySpec {
    let b = match r.below(12) {
        0 => vec![0u8; 32],
        1 => vec![0xffu8; 32],
        2 => {
            let mut v = vec![0u8; 32];
            v[r.usize(32)] = 1 << r.below(8);
            v
        }
        _ => r.bytes(32),
    };
    KeySpec::Sym { hex: hex::encode(b) }
}

pub fn ed_key(r: &mut Rng) -> KeySpec {
    KeySpec::Ed { seed_hex: hex::encode(r.bytes(32)) }
}

pub fn p384_key(r: &mut Rng) -> KeySpec {
    let mut b = r.bytes(48);
    b[0] &= 0x7f;
    if b.iter().all(|x| *x == 0) {
        b[47] = 1;
    }
    KeySpec::P384 { scalar_hex: hex::encode(b) }
}

pub fn rsa_key(r: &mut Rng) -> KeySpec {
    KeySpec::Rsa { fixture: r.usize(crate::keys::RSA_2048_FIXTURES) }
}

pub fn key_for(proto: Proto, r: &mut Rng) -> KeySpec {
    match proto {
        p if p.is_local() => sym_key(r),
        Proto::V1P => rsa_key(r),
        Proto::V2P | Proto::V4P => ed_key(r),
        Proto::V3P => p384_key(r),
        _ => unreachable!(),
    }
}

/// a key of the same kind guaranteed to differ from `k`
pub fn other_key_for(proto: Proto, k: &KeySpec, r: &mut Rng) -> KeySpec {
    loop {
        let c = match (proto, k) {
            (Proto::V1P, KeySpec::Rsa { fixture }) => KeySpec::Rsa { fixture: (fixture + 1 + r.usize(crate::keys::RSA_2048_FIXTURES - 1)) % crate::keys::RSA_2048_FIXTURES },
            _ => key_for(proto, r),
        };
        if &c != k {
            return c;
        }
    }
}

// ---------------------------------------------------------------------------------------------
// strings

const BOUNDARY_LENS: [usize; 22] = [0, 1, 2, 15, 16, 17, 31, 32, 33, 47, 48, 49, 63, 64, 65, 95, 96, 97, 127, 128, 129, 255];
const BIG_LENS: [usize; 9] = [256, 257, 4095, 4096, 4097, 65535, 65536, 65537, 100_000];

pub fn gen_len(r: &mut Rng, allow_big: bool) -> usize {
    match r.below(10) {
        0..=4 => *r.pick(&BOUNDARY_LENS),
        5 if allow_big => *r.pick(&BIG_LENS),
        6 => {
            // 2^k - 1, 2^k, 2^k + 1: thresholds nobody listed in advance
            let k = r.below(if allow_big { 18 } else { 10 }) as u32;
            ((1usize << k) + r.usize(3)).saturating_sub(1)
        }
        _ => r.usize(300),
    }
}

const MULTI: [&str; 18] = ["\u{2028}", "\u{2029}", "é", "ß", "Ж", "中", "日本", "𝄞", "😀", "\u{0}", ".", "\"", "\\", "\u{7f}", "\u{fffd}", "\\/", "\n", "\u{1b}"];

/// strings that look like something else: JSON text, key-serialisation (PASERK) prefixes, tokens
pub const LOOKALIKES: [&str; 30] = [
    "a==", "QUJD=", "=", "x=y=",
    "^https?:\\/\\/x", "a\\/b", "\\/", "<\\/script>",
    "{}", "[]", "[1,2,3]", "{\"a\":1}", "{\"data\":\"x\"}", "null", "true", "123", "\"q\"", "[\"a\",\"b\"]", " {}", "{} ",
    "k4.local-wrap.pie.AAAAAAAAAAAAAAAAAAAAAAAAAAAAAAAAAAAAAAAAAAAAAAAA", "k4.secret-wrap.pie.AAAA", "k2.localisation", "k4.public.AAAAAAAAAAAAAAAAAAAAAAAAAAAAAAAAAAAAAAAAAAA",
    "k3.local.x", "k1.secret-pw.y", "v4.local.AAAA", "v2.public.AAAA.AAAA", "{\"kid\":\"k4.lid.abc\"}", "{\"kid\":\"x\",\"vdata\":\"good\",\"sub\":\"good\",\"iat\":\"x\"}",
];

/// A UTF-8 string of (about) `len` bytes from the chosen alphabet class.
pub fn gen_text(r: &mut Rng, len: usize) -> String {
    if len >= 2 && len <= 80 && r.chance(1, 16) {
        return (*r.pick(&LOOKALIKES)).to_string();
    }
    let class = r.below(6);
    let mut s = String::with_capacity(len + 4);
    // sometimes a special first code point: byte-order mark, zero-width and bidi marks, whitespace
    if len >= 3 && r.chance(1, 12) {
        s.push(*r.pick(&['\u{feff}', '\u{200b}', '\u{200e}', '\u{202e}', '\u{2028}', ' ', '\t', '\n', '\r', '\u{a0}', '\u{0}', '\u{fffd}', '\u{10ffff}']));
    }
    while s.len() < len {
        match class {
            0 => s.push((b'a' + r.below(26) as u8) as char),
            1 => s.push((0x20 + r.below(0x5f) as u8) as char),
            2 => {
                if r.chance(1, 3) {
                    s.push_str(*r.pick(&MULTI));
                } else {
                    s.push((b'A' + r.below(26) as u8) as char);
                }
            }
            3 => s.push_str(*r.pick(&MULTI)),
            4 => {
                // arbitrary scalar values
                let c = loop {
                    let x = r.below(0x11_0000) as u32;
                    if let Some(c) = char::from_u32(x) {
                        break c;
                    }
                };
                s.push(c);
            }
            _ => s.push(*r.pick(&['.', '=', '-', '_', 'A', '0', '\0', ' '])),
        }
    }
    // trim to at most len bytes on a char boundary (keeps boundary lengths exact for ASCII classes)
    while s.len() > len {
        s.pop();
    }
    s
}

pub fn gen_ascii(r: &mut Rng, len: usize) -> String {
    (0..len).map(|_| (b'a' + r.below(26) as u8) as char).collect()
}

pub fn gen_alnum(r: &mut Rng, len: usize) -> String {
    const A: &[u8] = b"ABCDEFGHIJKLMNOPQRSTUVWXYZabcdefghijklmnopqrstuvwxyz0123456789";
    (0..len).map(|_| A[r.usize(A.len())] as char).collect()
}

/// None, explicit empty, or text
pub fn gen_opt_text(r: &mut Rng) -> Option<String> {
    match r.below(8) {
        0..=2 => None,
        3 => Some(String::new()),
        4 => Some(ascii!(r, 1 + r.usize(3))),
        _ => {
            let l = 1 + gen_len(r, false);
            let mut t = text!(r, l);
            if t.is_empty() {
                t.push('f');
            }
            Some(t)
        }
    }
}

pub fn gen_nonempty_text(r: &mut Rng, max: usize) -> String {
    let l = 1 + r.usize(max);
    let mut t = text!(r, l);
    if t.is_empty() {
        t.push('x');
    }
    t
}

// ---------------------------------------------------------------------------------------------
// JSON

pub fn gen_json(r: &mut Rng, depth: u32) -> Value {
    let top = if depth == 0 { 6 } else { 9 };
    match r.below(top) {
        0 => Value::Null,
        1 => Value::Bool(r.chance(1, 2)),
        2 => match r.below(10) {
            0 => json!(0),
            1 => json!(-1),
            2 => json!(i64::MAX),
            3 => json!(i64::MIN),
            4 => json!(u64::MAX),
            // integers no f64 can hold exactly, and the first ones beyond i64
            5 => json!(*r.pick(&[9_007_199_254_740_993i64, -9_007_199_254_740_993, 1_541_815_603_606_036_481, 9_223_372_036_854_775_805, 4_611_686_018_427_387_905])),
            6 => json!(*r.pick(&[9_223_372_036_854_775_808u64, 9_223_372_036_854_775_809, 18_446_744_073_709_551_613, 10_000_000_000_000_000_001])),
            7 => json!((r.next() >> 1) as i64 | 1),
            _ => json!(r.range(-1_000_000, 1_000_000) as i64),
        },
        3 => {
            // k / 2^j: exact short decimal form
            let k = r.range(-100_000, 100_000) as f64;
            let jx = r.below(8) as i32;
            json!(k / 2f64.powi(jx))
        }
        4 | 5 => {
            let l = gen_len(r, false).min(40);
            Value::String(text!(r, l))
        }
        6 if r.chance(1, 8) => {
            // a longer array of small non-negative integers (what a byte string looks like as JSON)
            let n = *r.pick(&[15usize, 16, 17, 32, 64]);
            Value::Array((0..n).map(|_| json!(r.below(256))).collect())
        }
        6 => {
            let n = r.usize(4);
            Value::Array((0..n).map(|_| gen_json(r, depth - 1)).collect())
        }
        _ => {
            let n = r.usize(4);
            let mut m = serde_json::Map::new();
            for _ in 0..n {
                // nested members may be named like registered claims (only top-level names are reserved)
                let k = if r.chance(1, 6) {
                    (*r.pick(&RESERVED)).to_string()
                } else if r.chance(1, 12) {
                    // (the empty member name is legal JSON; only an empty TOP-LEVEL claim key is ignored)
                    String::new()
                } else {
                    gen_key(r)
                };
                m.insert(k, gen_json(r, depth - 1));
            }
            Value::Object(m)
        }
    }
}

pub const RESERVED: [&str; 7] = ["iss", "sub", "aud", "exp", "nbf", "iat", "jti"];

/// a non-empty, non-reserved claim key
pub fn gen_key(r: &mut Rng) -> String {
    loop {
        let k = match r.below(8) {
            0 => r.pick(&["data", "role", "uid", "scope", "a", "b", "Exp", "EXP", "iss ", " sub", "aud\0", "exp2", "nb", "n", "x.y", "k\"q", "k\\b", "a/b", "a~1b", "a~0b", "https://example.com/claims/seats", "/", "~", "0", "a/0", " ", "  ", "\t", "\n", "\u{a0}", "\u{3000}", " role", "role ", "\u{feff}k"]).to_string(),
            1 => text!(r, 1 + r.usize(6)),
            _ => ascii!(r, 1 + r.usize(5)),
        };
        if !k.is_empty() && !RESERVED.contains(&k.as_str()) {
            return k;
        }
    }
}

pub fn gen_rec(r: &mut Rng, depth: u32) -> Rec {
    Rec {
        id: r.next() >> r.below(64),
        name: text!(r, r.usize(12)),
        tags: (0..r.usize(3)).map(|_| ascii!(r, 1 + r.usize(4))).collect(),
        flag: match r.below(3) {
            0 => None,
            1 => Some(true),
            _ => Some(false),
        },
        inner: if depth > 0 && r.chance(1, 2) { Some(Box::new(gen_rec(r, depth - 1))) } else { None },
    }
}

pub fn gen_native(r: &mut Rng) -> NativeVal {
    match r.below(14) {
        0 => NativeVal::I64(r.next() as i64 >> r.below(64)),
        1 => NativeVal::U64(r.next() >> r.below(64)),
        2 => NativeVal::I32(r.next() as i32),
        3 => NativeVal::U8(r.next() as u8),
        4 => NativeVal::F64(r.range(-100_000, 100_000) as f64 / 2f64.powi(r.below(8) as i32)),
        5 => NativeVal::Bool(r.chance(1, 2)),
        6 => NativeVal::Str(text!(r, r.usize(20))),
        7 => NativeVal::OptStr(if r.chance(1, 2) { None } else { Some(text!(r, r.usize(10))) }),
        8 if r.chance(1, 4) => NativeVal::VecI64((0..*r.pick(&[16usize, 20, 32])).map(|_| r.below(256) as i64).collect()),
        8 => NativeVal::VecI64((0..r.usize(5)).map(|_| r.range(-1000, 1000) as i64).collect()),
        9 => NativeVal::VecStr((0..r.usize(4)).map(|_| text!(r, r.usize(6))).collect()),
        10 => NativeVal::Unit,
        11 => NativeVal::Tuple(r.range(-9, 9) as i64, ascii!(r, r.usize(4)), r.chance(1, 2)),
        12 => NativeVal::Map((0..r.usize(4)).map(|_| (gen_key(r), r.range(-9, 9) as i64)).collect()),
        _ => NativeVal::Rec(gen_rec(r, 2)),
    }
}

/// A claim with a non-reserved key (custom) or a registered string claim.
pub fn gen_claim(r: &mut Rng, allow_time: bool, now: i128) -> ClaimSpec {
    match r.below(12) {
        0 => ClaimSpec::Iss(text!(r, r.usize(12))),
        1 => ClaimSpec::Sub(text!(r, r.usize(12))),
        2 => ClaimSpec::Aud(text!(r, r.usize(12))),
        3 => ClaimSpec::Jti(text!(r, r.usize(12))),
        4 if allow_time => {
            let t = now + r.range(60 * civil::NS, 10 * YEAR);
            ClaimSpec::Exp(render_canonical_t(r, t))
        }
        5 if allow_time => {
            let t = now - r.range(2 * civil::NS, 10 * YEAR).min(now - T_1971);
            ClaimSpec::Nbf(render_canonical_t(r, t))
        }
        6 if allow_time => {
            // usually in the past; sometimes ahead of the verifier's clock (issuer clock running fast) - iat is
            // informational, only nbf and exp bound the validity window
            let t = if r.chance(1, 4) { now + r.range(HOUR, 3 * DAY) } else { now - r.range(0, YEAR).min(now - T_1971) };
            ClaimSpec::Iat(render_canonical_t(r, t))
        }
        7 => ClaimSpec::Native { key: gen_key(r), val: gen_native(r) },
        8 => ClaimSpec::CustomRef { key: gen_key(r), value: gen_json(r, 2) },
        _ => ClaimSpec::Custom { key: gen_key(r), value: gen_json(r, 3) },
    }
}

// ---------------------------------------------------------------------------------------------
// timestamp renderings

/// canonical rendering (upper-case T, 'Z' or ±hh:mm, 0–9 fraction digits on the instant's grid)
/// canonical rendering with the upper-case 'T' separator only (where the text goes through the claim
/// constructors, which take ISO 8601 and may not accept every RFC 3339 spelling)
pub fn render_canonical_t(r: &mut Rng, t: i128) -> String {
    let mut st = canonical_style(r, t);
    st.sep = 'T';
    civil::render(t, st)
}

pub fn render_canonical(r: &mut Rng, t: i128) -> String {
    let st = canonical_style(r, t);
    civil::render(t, st)
}

pub fn canonical_style(r: &mut Rng, t: i128) -> civil::Style {
    let offset_min = match r.below(6) {
        0 | 1 => 0,
        2 => *r.pick(&[-1439, -720, -60, -1, 1, 60, 330, 345, 720, 840, 1439]),
        _ => r.range(-1439, 1439) as i32,
    };
    civil::Style { offset_min, frac_digits: needed_digits(t, r), sep: *r.pick(&['T', 'T', 'T', 'T', ' ', 't']), zulu: if r.chance(2, 3) { Some('Z') } else { None } }
}

/// smallest digit count that renders `t` exactly, possibly padded with more digits
pub fn needed_digits(t: i128, r: &mut Rng) -> u8 {
    let sub = t.rem_euclid(civil::NS);
    let mut need = 0u8;
    for d in 0..=9u8 {
        if sub % 10i128.pow(9 - d as u32) == 0 {
            need = d;
            break;
        }
    }
    if r.chance(1, 12) {
        // more digits than nanoseconds (trailing zeros): 10..=20
        10 + r.below(11) as u8
    } else if need < 9 && r.chance(1, 3) {
        need + r.below((9 - need) as u64 + 1) as u8
    } else {
        need
    }
}

/// exotic but still RFC 3339 renderings (only used where rejection is required either way)
pub fn exotic_style(r: &mut Rng, t: i128) -> civil::Style {
    let mut st = canonical_style(r, t);
    match r.below(4) {
        0 => st.sep = ' ',
        1 => st.sep = 't',
        2 => {
            st.offset_min = 0;
            st.zulu = Some('z');
        }
        _ => {
            st.sep = 't';
            st.offset_min = 0;
            st.zulu = Some('z');
        }
    }
    st
}

pub fn non_timestamp_value(r: &mut Rng) -> Value {
    non_timestamp_value_at(r, 1_900_000_000 * civil::NS)
}

/// values that are present, non-null and not an RFC 3339 string; numbers include plausible epoch
/// seconds / milliseconds around `now` (a lenient reader must not take them for instants)
pub fn non_timestamp_value_at(r: &mut Rng, now: i128) -> Value {
    let secs = (now / civil::NS) as i64;
    match r.below(22) {
        0 => json!(12345),
        1 => json!(secs - 3600),
        2 => json!(true),
        3 => json!(false),
        4 => json!([1]),
        5 => json!(["2030-01-01T00:00:00Z"]),
        6 => json!({"a": 1}),
        7 => json!(""),
        8 => json!("tomorrow"),
        9 => json!("2030-01-01"),
        10 => json!(1.5),
        11 => json!(secs + 3600),
        12 => json!(secs + 86_400 * 365),
        13 => json!(4_102_444_800i64),
        14 => json!(253_402_300_799i64),
        15 => json!((secs + 3600) * 1000),
        16 => json!((secs + 3600) as f64 + 0.5),
        17 => json!(-1),
        18 => json!({"exp": "2999-01-01T00:00:00Z"}),
        19 => json!(*r.pick(&["infinity", "-infinity", "Infinity", "never", "none", "NaN", "forever", "max", "0", "null", "false", "*", "now", "9999"])),
        _ => Value::String(ascii!(r, 1 + r.usize(12))),
    }
}

/// Timestamp look-alikes that are NOT valid RFC 3339 (several are valid ISO 8601): a lenient reader
/// would take them for instants.  `t` is the instant they would denote.
pub fn near_miss_timestamp(r: &mut Rng, t: i128) -> String {
    let t = t - t.rem_euclid(civil::NS);
    let z = civil::render(t, civil::Style::canonical_z()); // YYYY-MM-DDTHH:MM:SSZ
    let date = &z[..10];
    let time = &z[11..19];
    match r.below(16) {
        0 => format!("{}T{}", date, time),                              // no offset
        1 => format!("{}T{}Z", date, &time[..5]),                       // no seconds
        2 => format!("{}T{}Z", date.replace('-', ""), time.replace(':', "")), // basic format
        3 => format!("{}T{}+0000", date, time),                         // offset without colon
        4 => format!("{}T{}+00", date, time),                           // hour-only offset
        5 => format!("{}T{},5Z", date, time),                           // comma decimal separator
        6 => format!("{}T{}Z trailing", date, time),                    // trailing text
        7 => format!(" {}T{}Z", date, time),                            // leading space
        8 => format!("{}T{}.Z", date, time),                            // empty fraction
        9 => format!("{}T{}+24:00", date, time),                        // offset hour out of range
        10 => format!("{}T{}+00:60", date, time),                       // offset minute out of range
        11 => format!("{}-13-01T{}Z", &date[..4], time),                // month 13
        12 => format!("{}T24:00:00Z", date),                            // hour 24
        13 => format!("{}T{}Z", &date[2..], time),                      // two-digit year
        14 => format!("{}T{}-0100", date, time),                        // offset without colon
        _ => format!("{}T{}ZZ", date, time),
    }
}

/// See macros.rs: `text!(r, 1 + r.usize(6))` evaluates the length first, then borrows the generator.
pub trait AsRng {
    fn as_rng(&mut self) -> &mut Rng;
}
impl AsRng for Rng {
    fn as_rng(&mut self) -> &mut Rng {
        self
    }
}
