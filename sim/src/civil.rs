//! Independent RFC 3339 rendering/parsing on i128 nanoseconds since the Unix epoch (proleptic
//! Gregorian calendar, Howard Hinnant's civil-date algorithms).  Used by generators (to render an
//! instant in any offset / fraction form) and by the oracle (to read instants back out of payloads)
//! so that the oracle does not depend on the `time` crate the library itself uses.

pub const NS: i128 = 1_000_000_000;
pub const DAY_NS: i128 = 86_400 * NS;

pub fn days_from_civil(y: i64, m: u32, d: u32) -> i64 {
    let y = if m <= 2 { y - 1 } else { y };
    let era = if y >= 0 { y } else { y - 399 } / 400;
    let yoe = (y - era * 400) as i64;
    let mp = (m as i64 + 9) % 12;
    let doy = (153 * mp + 2) / 5 + d as i64 - 1;
    let doe = yoe * 365 + yoe / 4 - yoe / 100 + doy;
    era * 146_097 + doe - 719_468
}

pub fn civil_from_days(z: i64) -> (i64, u32, u32) {
    let z = z + 719_468;
    let era = if z >= 0 { z } else { z - 146_096 } / 146_097;
    let doe = z - era * 146_097;
    let yoe = (doe - doe / 1460 + doe / 36_524 - doe / 146_096) / 365;
    let y = yoe + era * 400;
    let doy = doe - (365 * yoe + yoe / 4 - yoe / 100);
    let mp = (5 * doy + 2) / 153;
    let d = (doy - (153 * mp + 2) / 5 + 1) as u32;
    let m = if mp < 10 { mp + 3 } else { mp - 9 } as u32;
    (if m <= 2 { y + 1 } else { y }, m, d)
}

pub fn is_leap(y: i64) -> bool {
    (y % 4 == 0 && y % 100 != 0) || y % 400 == 0
}

pub fn days_in_month(y: i64, m: u32) -> u32 {
    match m {
        1 | 3 | 5 | 7 | 8 | 10 | 12 => 31,
        4 | 6 | 9 | 11 => 30,
        2 => {
            if is_leap(y) {
                29
            } else {
                28
            }
        }
        _ => 0,
    }
}

pub fn ns_from_ymd_hms(y: i64, mo: u32, d: u32, h: u32, mi: u32, s: u32, nanos: u32) -> i128 {
    let days = days_from_civil(y, mo, d) as i128;
    days * DAY_NS + (h as i128 * 3600 + mi as i128 * 60 + s as i128) * NS + nanos as i128
}

#[derive(Clone, Copy, Debug)]
pub struct Style {
    /// UTC offset in minutes, -1439..=1439
    pub offset_min: i32,
    /// number of fractional digits 0..=9 (the instant must be on that grid for an exact rendering)
    pub frac_digits: u8,
    /// 'T', 't' or ' '
    pub sep: char,
    /// when offset is 0: render as 'Z' / 'z' (true) or '+00:00' (false)
    pub zulu: Option<char>,
}

impl Style {
    pub fn canonical_z() -> Style {
        Style { offset_min: 0, frac_digits: 0, sep: 'T', zulu: Some('Z') }
    }
}

/// Renders the instant `ns` (Unix ns) in the given style.  Fraction digits truncate.
pub fn render(ns: i128, st: Style) -> String {
    let local = ns + st.offset_min as i128 * 60 * NS;
    let days = local.div_euclid(DAY_NS);
    let rem = local.rem_euclid(DAY_NS);
    let (y, m, d) = civil_from_days(days as i64);
    let secs = rem / NS;
    let nanos = (rem % NS) as u64;
    let (h, mi, s) = (secs / 3600, (secs / 60) % 60, secs % 60);
    let mut out = format!("{:04}-{:02}-{:02}{}{:02}:{:02}:{:02}", y, m, d, st.sep, h, mi, s);
    if st.frac_digits > 0 {
        // RFC 3339 allows any number of fraction digits: beyond nanoseconds they are zeros here
        let mut full = format!("{:09}", nanos);
        while full.len() < st.frac_digits as usize {
            full.push('0');
        }
        out.push('.');
        out.push_str(&full[..st.frac_digits as usize]);
    }
    if st.offset_min == 0 && st.zulu.is_some() {
        out.push(st.zulu.unwrap());
    } else {
        let sign = if st.offset_min < 0 { '-' } else { '+' };
        let a = st.offset_min.abs();
        out.push_str(&format!("{}{:02}:{:02}", sign, a / 60, a % 60));
    }
    out
}

/// Strict RFC 3339 parse (upper/lower-case T/Z and space separator accepted, as RFC 3339 allows).
/// Returns the instant in Unix ns.  Leap second (":60") is accepted only as 23:59:60 UTC-equivalent and
/// mapped to the following second, which is all the oracle needs (it is used for rejection cases only).
pub fn parse(s: &str) -> Option<i128> {
    let b = s.as_bytes();
    if b.len() < 20 {
        return None;
    }
    fn num(b: &[u8]) -> Option<u32> {
        let mut v = 0u32;
        if b.is_empty() {
            return None;
        }
        for c in b {
            if !c.is_ascii_digit() {
                return None;
            }
            v = v * 10 + (*c - b'0') as u32;
        }
        Some(v)
    }
    let y = num(&b[0..4])? as i64;
    if b[4] != b'-' || b[7] != b'-' {
        return None;
    }
    let mo = num(&b[5..7])?;
    let d = num(&b[8..10])?;
    if !(b[10] == b'T' || b[10] == b't' || b[10] == b' ') {
        return None;
    }
    let h = num(&b[11..13])?;
    if b[13] != b':' || b[16] != b':' {
        return None;
    }
    let mi = num(&b[14..16])?;
    let sec = num(&b[17..19])?;
    let mut i = 19;
    let mut nanos: u32 = 0;
    if b[i] == b'.' {
        i += 1;
        let st = i;
        while i < b.len() && b[i].is_ascii_digit() {
            i += 1;
        }
        if i == st {
            return None;
        }
        let digits = &b[st..i];
        let mut v: u64 = 0;
        for k in 0..9 {
            v = v * 10 + if k < digits.len() { (digits[k] - b'0') as u64 } else { 0 };
        }
        nanos = v as u32;
    }
    if i >= b.len() {
        return None;
    }
    let off_min: i32 = if b[i] == b'Z' || b[i] == b'z' {
        if i + 1 != b.len() {
            return None;
        }
        0
    } else if b[i] == b'+' || b[i] == b'-' {
        if i + 6 != b.len() || b[i + 3] != b':' {
            return None;
        }
        let oh = num(&b[i + 1..i + 3])? as i32;
        let om = num(&b[i + 4..i + 6])? as i32;
        if oh > 23 || om > 59 {
            return None;
        }
        let v = oh * 60 + om;
        if b[i] == b'-' {
            -v
        } else {
            v
        }
    } else {
        return None;
    };
    if mo < 1 || mo > 12 || d < 1 || d > days_in_month(y, mo) || h > 23 || mi > 59 || sec > 60 {
        return None;
    }
    let local = ns_from_ymd_hms(y, mo, d, h, mi, sec.min(59), nanos) + if sec == 60 { NS } else { 0 };
    Some(local - off_min as i128 * 60 * NS)
}

#[cfg(test)]
mod tests {
    use super::*;
    #[test]
    fn roundtrip() {
        for &ns in &[0i128, 1, 951_782_400 * NS, 253_402_300_799 * NS + 999_999_999, 31_536_000 * NS] {
            for &off in &[0, 1, -1, 60, -60, 1439, -1439, 330] {
                for fd in [0u8, 3, 9] {
                    let grid = 10i128.pow(9 - fd as u32);
                    let t = ns - ns.rem_euclid(grid);
                    let s = render(t, Style { offset_min: off, frac_digits: fd, sep: 'T', zulu: Some('Z') });
                    assert_eq!(parse(&s), Some(t), "{}", s);
                }
            }
        }
        assert_eq!(render(0, Style::canonical_z()), "1970-01-01T00:00:00Z");
        assert_eq!(parse("2019-01-01T00:00:00+00:00"), Some(1_546_300_800 * NS));
        assert_eq!(parse("2019-01-01"), None);
    }
}
