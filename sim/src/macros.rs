//! String-generator macros (length evaluated before the generator is borrowed).

macro_rules! text {
    ($r:expr, $n:expr) => {{
        #[allow(unused_imports)]
        use $crate::gen::AsRng as _;
        let __n = $n;
        $crate::gen::gen_text($r.as_rng(), __n)
    }};
}
macro_rules! ascii {
    ($r:expr, $n:expr) => {{
        #[allow(unused_imports)]
        use $crate::gen::AsRng as _;
        let __n = $n;
        $crate::gen::gen_ascii($r.as_rng(), __n)
    }};
}
macro_rules! alnum {
    ($r:expr, $n:expr) => {{
        #[allow(unused_imports)]
        use $crate::gen::AsRng as _;
        let __n = $n;
        $crate::gen::gen_alnum($r.as_rng(), __n)
    }};
}
macro_rules! nonempty_text {
    ($r:expr, $n:expr) => {{
        #[allow(unused_imports)]
        use $crate::gen::AsRng as _;
        let __n = $n;
        $crate::gen::gen_nonempty_text($r.as_rng(), __n)
    }};
}
