//! The faulty channel: pure functions from an in-flight string (and fault parameters) to the string
//! that arrives.  `None` = the fault is not applicable to this string (e.g. no footer segment).

use crate::model::{FaultKind, Proto, Seg, SplicePart};
use base64::engine::general_purpose::URL_SAFE_NO_PAD;
use base64::Engine;

pub const B64_ALPHABET: &[u8; 64] = b"ABCDEFGHIJKLMNOPQRSTUVWXYZabcdefghijklmnopqrstuvwxyz0123456789-_";

pub fn b64(b: &[u8]) -> String {
    URL_SAFE_NO_PAD.encode(b)
}
pub fn unb64(s: &str) -> Option<Vec<u8>> {
    URL_SAFE_NO_PAD.decode(s).ok()
}

/// A structurally well-formed token: "<ver>.<purpose>.<payload>[.<footer>]" with strictly decodable
/// base64url segments.
#[derive(Clone, Debug, PartialEq)]
pub struct Tok {
    pub ver: String,
    pub purpose: String,
    pub payload: Vec<u8>,
    /// None: three segments.  Some(vec![]): a trailing '.' (empty 4th segment).
    pub footer: Option<Vec<u8>>,
}

impl Tok {
    pub fn parse(s: &str) -> Option<Tok> {
        let parts: Vec<&str> = s.split('.').collect();
        if parts.len() != 3 && parts.len() != 4 {
            return None;
        }
        let payload = unb64(parts[2])?;
        let footer = if parts.len() == 4 { Some(unb64(parts[3])?) } else { None };
        Some(Tok { ver: parts[0].to_string(), purpose: parts[1].to_string(), payload, footer })
    }
    pub fn render(&self) -> String {
        let mut s = format!("{}.{}.{}", self.ver, self.purpose, b64(&self.payload));
        if let Some(f) = &self.footer {
            s.push('.');
            s.push_str(&b64(f));
        }
        s
    }
    pub fn proto(&self) -> Option<Proto> {
        Proto::from_header_prefix(&format!("{}.{}.", self.ver, self.purpose))
    }
    pub fn header(&self) -> String {
        format!("{}.{}.", self.ver, self.purpose)
    }
}

fn seg_mut<'a>(t: &'a mut Tok, seg: &Seg) -> Option<&'a mut Vec<u8>> {
    match seg {
        Seg::Payload => Some(&mut t.payload),
        Seg::Footer => t.footer.as_mut(),
    }
}

/// index of the text segment (payload=2, footer=3) boundaries in the raw string
fn seg_text_range(s: &str, seg: &Seg) -> Option<(usize, usize)> {
    let idx = match seg {
        Seg::Payload => 2,
        Seg::Footer => 3,
    };
    let mut start = 0usize;
    let mut n = 0;
    for (i, c) in s.char_indices() {
        if c == '.' {
            if n == idx {
                return Some((start, i));
            }
            n += 1;
            start = i + 1;
        }
    }
    if n == idx {
        Some((start, s.len()))
    } else {
        None
    }
}

pub fn apply(src: &str, kind: &FaultKind, other: Option<&str>) -> Option<String> {
    match kind {
        FaultKind::Duplicate => Some(src.to_string()),
        FaultKind::RotateMsgTailToFooter { p } => {
            let mut t = Tok::parse(src)?;
            let proto = t.proto()?;
            if proto.is_local() || t.footer.is_some() || *p < 9 {
                return None;
            }
            let sl = proto.tail_len();
            if t.payload.len() < sl + *p {
                return None;
            }
            let cut = t.payload.len() - sl - *p;
            let tail: Vec<u8> = t.payload[cut..cut + *p].to_vec();
            let sig: Vec<u8> = t.payload[t.payload.len() - sl..].to_vec();
            let mut np = t.payload[..cut].to_vec();
            np.extend_from_slice(&sig);
            t.payload = np;
            let mut footer = tail[8..].to_vec();
            footer.extend_from_slice(&tail[..8]);
            t.footer = Some(footer);
            Some(t.render())
        }
        FaultKind::AlphabetSwap { seg } => {
            let (a, b) = seg_text_range(src, seg)?;
            let t = &src[a..b];
            if !t.contains('-') && !t.contains('_') {
                return None;
            }
            Some(format!("{}{}{}", &src[..a], t.replace('-', "+").replace('_', "/"), &src[b..]))
        }
        FaultKind::BitFlip { seg, bit } => {
            let mut t = Tok::parse(src)?;
            let v = seg_mut(&mut t, seg)?;
            if *bit >= v.len() * 8 {
                return None;
            }
            v[bit / 8] ^= 1 << (bit % 8);
            Some(t.render())
        }
        FaultKind::CharSubst { pos, c } => {
            if !src.is_char_boundary(*pos) || *pos >= src.len() {
                return None;
            }
            let old = src[*pos..].chars().next()?;
            if old == *c {
                return None;
            }
            let mut out = String::with_capacity(src.len() + 4);
            out.push_str(&src[..*pos]);
            out.push(*c);
            out.push_str(&src[*pos + old.len_utf8()..]);
            Some(out)
        }
        FaultKind::CharNext { pos } => {
            let b = src.as_bytes();
            if *pos >= b.len() {
                return None;
            }
            let i = B64_ALPHABET.iter().position(|c| *c == b[*pos])?;
            let mut out = b.to_vec();
            out[*pos] = B64_ALPHABET[(i + 1) % 64];
            String::from_utf8(out).ok()
        }
        FaultKind::Truncate { n } => {
            if *n >= src.len() || !src.is_char_boundary(*n) {
                return None;
            }
            Some(src[..*n].to_string())
        }
        FaultKind::Extend { text } => {
            if text.is_empty() {
                return None;
            }
            Some(format!("{}{}", src, text))
        }
        FaultKind::ExtendDecoded { seg, hex } => {
            let mut t = Tok::parse(src)?;
            let add = hex::decode(hex).ok()?;
            if add.is_empty() {
                return None;
            }
            seg_mut(&mut t, seg)?.extend_from_slice(&add);
            Some(t.render())
        }
        FaultKind::InsertChar { pos, c } => {
            if *pos > src.len() || !src.is_char_boundary(*pos) {
                return None;
            }
            let mut out = String::with_capacity(src.len() + 4);
            out.push_str(&src[..*pos]);
            out.push(*c);
            out.push_str(&src[*pos..]);
            Some(out)
        }
        FaultKind::DeleteChar { pos } => {
            if *pos >= src.len() || !src.is_char_boundary(*pos) {
                return None;
            }
            let old = src[*pos..].chars().next()?;
            let mut out = String::with_capacity(src.len());
            out.push_str(&src[..*pos]);
            out.push_str(&src[*pos + old.len_utf8()..]);
            Some(out)
        }
        FaultKind::ShiftPayloadFooter { k } => {
            let mut t = Tok::parse(src)?;
            let mut f = t.footer.clone().unwrap_or_default();
            if *k > 0 {
                let k = *k as usize;
                if k > t.payload.len() {
                    return None;
                }
                let tail = t.payload.split_off(t.payload.len() - k);
                let mut nf = tail;
                nf.extend_from_slice(&f);
                f = nf;
            } else if *k < 0 {
                let k = (-*k) as usize;
                if k > f.len() {
                    return None;
                }
                let rest = f.split_off(k);
                t.payload.extend_from_slice(&f);
                f = rest;
            } else {
                return None;
            }
            t.footer = Some(f);
            Some(t.render())
        }
        FaultKind::ShiftBodyTail { k } => {
            let mut t = Tok::parse(src)?;
            let p = t.proto()?;
            let tail = p.tail_len();
            if t.payload.len() < tail {
                return None;
            }
            let cut = t.payload.len() - tail;
            if *k > 0 {
                let k = *k as usize;
                if k > cut.saturating_sub(p.nonce_len()) {
                    return None;
                }
                t.payload.drain(cut - k..cut);
            } else if *k < 0 {
                let k = (-*k) as usize;
                if k > cut.saturating_sub(p.nonce_len()) {
                    return None;
                }
                let dup: Vec<u8> = t.payload[cut - k..cut].to_vec();
                let mut np = t.payload[..cut].to_vec();
                np.extend_from_slice(&dup);
                np.extend_from_slice(&t.payload[cut..]);
                t.payload = np;
            } else {
                return None;
            }
            Some(t.render())
        }
        FaultKind::Splice { part } => {
            let mut t = Tok::parse(src)?;
            let o = Tok::parse(other?)?;
            let p = t.proto()?;
            if o.proto()? != p {
                return None;
            }
            let (n, tl) = (p.nonce_len(), p.tail_len());
            if t.payload.len() < n + tl || o.payload.len() < n + tl {
                return None;
            }
            match part {
                SplicePart::Nonce => {
                    if n == 0 {
                        return None;
                    }
                    t.payload[..n].copy_from_slice(&o.payload[..n]);
                }
                SplicePart::Body => {
                    let mut np = t.payload[..n].to_vec();
                    np.extend_from_slice(&o.payload[n..o.payload.len() - tl]);
                    np.extend_from_slice(&t.payload[t.payload.len() - tl..]);
                    t.payload = np;
                }
                SplicePart::Tail => {
                    let l = t.payload.len();
                    t.payload[l - tl..].copy_from_slice(&o.payload[o.payload.len() - tl..]);
                }
                SplicePart::Footer => {
                    t.footer = o.footer.clone();
                }
            }
            Some(t.render())
        }
        FaultKind::TrailingBits { seg, bits } => {
            let (a, b) = seg_text_range(src, seg)?;
            let text = &src[a..b];
            if text.is_empty() || !text.is_ascii() {
                return None;
            }
            let unused = match text.len() % 4 {
                2 => 4,
                3 => 2,
                _ => return None,
            };
            let mask = (1u8 << unused) - 1;
            let add = bits & mask;
            if add == 0 {
                return None;
            }
            let last = text.as_bytes()[text.len() - 1];
            let v = B64_ALPHABET.iter().position(|c| *c == last)? as u8;
            if v & mask != 0 {
                return None;
            }
            let nv = v | add;
            let mut out = String::with_capacity(src.len());
            out.push_str(&src[..b - 1]);
            out.push(B64_ALPHABET[nv as usize] as char);
            out.push_str(&src[b..]);
            Some(out)
        }
        FaultKind::Pad { seg, n } => {
            let (_, b) = seg_text_range(src, seg)?;
            if *n == 0 {
                return None;
            }
            let mut out = String::with_capacity(src.len() + n);
            out.push_str(&src[..b]);
            for _ in 0..*n {
                out.push('=');
            }
            out.push_str(&src[b..]);
            Some(out)
        }
        FaultKind::FooterReplace { text } => {
            let mut t = Tok::parse(src)?;
            t.footer.as_ref()?;
            t.footer = Some(text.as_bytes().to_vec());
            Some(t.render())
        }
        FaultKind::DropFooter => {
            let mut t = Tok::parse(src)?;
            t.footer.as_ref()?;
            t.footer = None;
            Some(t.render())
        }
        FaultKind::AddFooter { text } => {
            let mut t = Tok::parse(src)?;
            if t.footer.is_some() || text.is_empty() {
                return None;
            }
            t.footer = Some(text.as_bytes().to_vec());
            Some(t.render())
        }
        FaultKind::AddEmptyFooter => {
            if src.split('.').count() != 3 {
                return None;
            }
            Some(format!("{}.", src))
        }
        FaultKind::RemoveEmptyFooter => {
            if src.split('.').count() != 4 || !src.ends_with('.') {
                return None;
            }
            Some(src[..src.len() - 1].to_string())
        }
        FaultKind::Relabel { to } => {
            let p = Proto::from_header_prefix(src)?;
            if p == *to {
                return None;
            }
            Some(format!("{}{}", to.header(), &src[p.header().len()..]))
        }
        FaultKind::SigNegateS => {
            let mut t = Tok::parse(src)?;
            if t.proto()? != Proto::V3P || t.payload.len() < 96 {
                return None;
            }
            let l = t.payload.len();
            let neg = negate_s(&t.payload[l - 96..])?;
            t.payload[l - 96..].copy_from_slice(&neg);
            Some(t.render())
        }
        FaultKind::RepeatHeader { n } => {
            let p = Proto::from_header_prefix(src)?;
            if *n == 0 {
                return None;
            }
            Some(format!("{}{}{}", p.header(), p.header().repeat(*n as usize), &src[p.header().len()..]))
        }
        FaultKind::FooterReplaceRaw { hex } => {
            let mut t = Tok::parse(src)?;
            let cur = t.footer.as_ref()?.clone();
            let raw = hex::decode(hex).ok()?;
            if raw == cur {
                return None;
            }
            t.footer = Some(raw);
            Some(t.render())
        }
        FaultKind::SigFill { half, pattern } => {
            let mut t = Tok::parse(src)?;
            let p = t.proto()?;
            if p.is_local() {
                return None;
            }
            let sl = p.tail_len();
            if t.payload.len() < sl {
                return None;
            }
            let h = sl / 2;
            const P384_N: [u8; 48] = [
                0xff, 0xff, 0xff, 0xff, 0xff, 0xff, 0xff, 0xff, 0xff, 0xff, 0xff, 0xff, 0xff, 0xff, 0xff, 0xff, 0xff, 0xff, 0xff, 0xff, 0xff, 0xff, 0xff, 0xff, 0xc7, 0x63, 0x4d, 0x81, 0xf4, 0x37, 0x2d, 0xdf, 0x58, 0x1a,
                0x0d, 0xb2, 0x48, 0xb0, 0xa7, 0x7a, 0xec, 0xec, 0x19, 0x6a, 0xcc, 0xc5, 0x29, 0x73,
            ];
            const ED_L: [u8; 32] = [
                0xed, 0xd3, 0xf5, 0x5c, 0x1a, 0x63, 0x12, 0x58, 0xd6, 0x9c, 0xf7, 0xa2, 0xde, 0xf9, 0xde, 0x14, 0, 0, 0, 0, 0, 0, 0, 0, 0, 0, 0, 0, 0, 0, 0, 0x10,
            ];
            let fill: Vec<u8> = match (*pattern, p) {
                (0, _) => vec![0u8; h],
                (1, _) => vec![0xffu8; h],
                (2, Proto::V3P) => P384_N.to_vec(),
                (3, Proto::V3P) => {
                    let mut v = P384_N.to_vec();
                    v[47] -= 1;
                    v
                }
                (2, Proto::V2P | Proto::V4P) => ED_L.to_vec(),
                (3, Proto::V2P | Proto::V4P) => {
                    let mut v = ED_L.to_vec();
                    v[0] -= 1;
                    v
                }
                _ => (0..h).map(|k| (k as u8).wrapping_mul(37) ^ 0x5a).collect(),
            };
            let l = t.payload.len();
            let at = l - sl + if *half == 0 { 0 } else { h };
            if t.payload[at..at + h] == fill[..] {
                return None;
            }
            t.payload[at..at + h].copy_from_slice(&fill);
            Some(t.render())
        }
        FaultKind::RandomEdit { seg, at, hex } => {
            let mut t = Tok::parse(src)?;
            let bytes = hex::decode(hex).ok()?;
            let v = seg_mut(&mut t, seg)?;
            if bytes.is_empty() || at + bytes.len() > v.len() {
                return None;
            }
            if v[*at..at + bytes.len()] == bytes[..] {
                return None;
            }
            v[*at..at + bytes.len()].copy_from_slice(&bytes);
            Some(t.render())
        }
    }
}

/// ECDSA P-384 signature r||s -> r||(n-s)
pub fn negate_s(sig: &[u8]) -> Option<Vec<u8>> {
    use p384::ecdsa::Signature;
    let s = Signature::from_slice(sig).ok()?;
    let r = s.r();
    let sv = s.s();
    let neg = -*sv;
    let s2 = Signature::from_scalars(r.to_bytes(), neg.to_bytes()).ok()?;
    Some(s2.to_bytes().to_vec())
}
