//! Provenance-based reference model and clause-tagged oracle (DESIGN §5).
//!
//! The model is rebuilt from the event list and the observations: it knows which authentic token each
//! in-flight string derives from, what a builder's claim state was at each build, and what each
//! verifier is configured to accept.  It never re-implements cryptography.  Every clause is tagged
//! with the property it belongs to; a check for property P records only P's clauses.

use crate::civil;
use crate::faults::{self, Tok};
use crate::keys::{self, KeyMat};
use crate::model::*;
use serde_json::Value;
use std::collections::{BTreeMap, BTreeSet};

#[derive(Clone, Debug, serde::Serialize, serde::Deserialize, PartialEq)]
pub struct Violation {
    pub event: usize,
    pub property: String,
    pub clause: String,
    pub expected: String,
    pub observed: String,
    pub facts: BTreeMap<String, String>,
}

#[derive(Default, Clone, Debug)]
pub struct Judgement {
    pub violations: Vec<Violation>,
    pub clauses: BTreeMap<String, u64>,
    pub unjudged: BTreeMap<String, u64>,
    pub probes: BTreeMap<String, u64>,
    pub fired: BTreeMap<String, u64>,
    pub trace: Vec<String>,
    pub nontrivial: bool,
    pub evaluations: u64,
    pub sim_ns_min: Option<i128>,
    pub sim_ns_max: Option<i128>,
}

impl Judgement {
    fn probe(&mut self, name: &str) {
        *self.probes.entry(name.to_string()).or_insert(0) += 1;
    }
    fn fire(&mut self, name: &str) {
        *self.fired.entry(name.to_string()).or_insert(0) += 1;
    }
    fn time(&mut self, t: i128) {
        self.sim_ns_min = Some(self.sim_ns_min.map_or(t, |m| m.min(t)));
        self.sim_ns_max = Some(self.sim_ns_max.map_or(t, |m| m.max(t)));
    }
}

#[derive(Clone, Debug, PartialEq)]
pub enum MVal {
    Json(Value),
    /// an instant rendered by the library itself (default iat/nbf/exp): compared as an instant
    Instant(i128),
}

#[derive(Clone, Debug)]
pub struct BuilderModel {
    pub proto: Proto,
    pub layer: Layer,
    pub created: i128,
    pub claims: BTreeMap<String, MVal>,
    pub footer: Option<String>,
    pub assertion: Option<String>,
    pub ack: bool,
    pub supplied: BTreeSet<String>,
    pub dups: BTreeSet<String>,
    pub exp_after_ack: bool,
    pub alive: bool,
    pub builds_ok: u32,
    pub builds_failed: u32,
    pub refused_exp_after_ack: bool,
    pub ops: u32,
}

#[derive(Clone, Debug)]
pub enum Content {
    Str(String),
    Claims(BTreeMap<String, MVal>),
}

#[derive(Clone, Debug)]
pub struct TokenInfo {
    pub proto: Proto,
    pub layer: Layer,
    pub key: usize,
    pub footer: Option<String>,
    pub assertion: Option<String>,
    pub content: Content,
    pub text: String,
    pub event: usize,
    pub snapshot: Option<BuilderModel>,
    pub builder: Option<u32>,
}

#[derive(Clone, Debug)]
pub struct MsgInfo {
    pub text: String,
    pub root: Option<u32>,
    pub faults: Vec<String>,
    /// issued by the foreign issuer: (protocol, key, payload is UTF-8, footer, assertion)
    pub foreign: Option<(Proto, usize, bool, Option<String>, Option<String>)>,
}

#[derive(Clone, Copy, Debug, PartialEq, Eq)]
pub enum Rel {
    Verbatim,
    TolDot,
    TolSig,
    Altered,
}

#[derive(Clone, Copy, Debug, PartialEq, Eq)]
pub enum Tri {
    MustAccept,
    MustReject,
    Either,
}

#[derive(Clone, Debug, PartialEq)]
pub enum Member {
    Absent,
    Null,
    Time { t: i128, canonical: bool },
    /// a well-formed RFC 3339 timestamp except that date and time are separated by some other single
    /// character (RFC 3339 5.6 NOTE lets applications be liberal here; the `time` crate is): latitude
    Dubious,
    /// a string shaped like a timestamp that is not valid RFC 3339 (month 13, missing offset, …)
    Malformed,
    NonTime(Value),
}

pub fn fault_name(k: &FaultKind) -> &'static str {
    match k {
        FaultKind::BitFlip { seg: Seg::Payload, .. } => "BitFlip(payload)",
        FaultKind::BitFlip { seg: Seg::Footer, .. } => "BitFlip(footer)",
        FaultKind::CharSubst { .. } => "CharSubst",
        FaultKind::CharNext { .. } => "CharNext",
        FaultKind::Truncate { .. } => "Truncate",
        FaultKind::Extend { .. } => "Extend",
        FaultKind::ExtendDecoded { .. } => "ExtendDecoded",
        FaultKind::InsertChar { .. } => "InsertChar",
        FaultKind::DeleteChar { .. } => "DeleteChar",
        FaultKind::ShiftPayloadFooter { .. } => "ShiftPayloadFooter",
        FaultKind::ShiftBodyTail { .. } => "ShiftBodyTail",
        FaultKind::Splice { part: SplicePart::Nonce } => "Splice(nonce)",
        FaultKind::Splice { part: SplicePart::Body } => "Splice(body)",
        FaultKind::Splice { part: SplicePart::Tail } => "Splice(tail)",
        FaultKind::Splice { part: SplicePart::Footer } => "Splice(footer)",
        FaultKind::TrailingBits { .. } => "TrailingBits",
        FaultKind::Pad { .. } => "Pad",
        FaultKind::FooterReplace { .. } => "FooterReplace",
        FaultKind::DropFooter => "DropFooter",
        FaultKind::AddFooter { .. } => "AddFooter",
        FaultKind::AddEmptyFooter => "AddEmptyFooter",
        FaultKind::RemoveEmptyFooter => "RemoveEmptyFooter",
        FaultKind::Relabel { .. } => "Relabel",
        FaultKind::SigNegateS => "SigNegateS",
        FaultKind::SigFill { .. } => "SigFill",
        FaultKind::RepeatHeader { .. } => "RepeatHeader",
        FaultKind::FooterReplaceRaw { .. } => "FooterReplaceRaw",
        FaultKind::RandomEdit { .. } => "RandomEdit",
        FaultKind::AlphabetSwap { .. } => "AlphabetSwap",
        FaultKind::RotateMsgTailToFooter { .. } => "RotateMsgTailToFooter",
        FaultKind::Duplicate => "Duplicate",
    }
}

pub fn opt_equiv(a: &Option<String>, b: &Option<String>) -> bool {
    a.as_deref().unwrap_or("") == b.as_deref().unwrap_or("")
}

/// Same number in another spelling (the `1` vs `1.0` latitude): exact mathematical equality, so that
/// two different integers beyond 2^53 are NOT considered the same.
fn num_same(x: &serde_json::Number, y: &serde_json::Number) -> bool {
    if x == y {
        return true;
    }
    let int_of = |n: &serde_json::Number| -> Option<i128> {
        if let Some(i) = n.as_i64() {
            Some(i as i128)
        } else if let Some(u) = n.as_u64() {
            Some(u as i128)
        } else {
            let f = n.as_f64()?;
            if f.fract() == 0.0 && f.abs() <= 9_007_199_254_740_992.0 {
                Some(f as i128)
            } else {
                None
            }
        }
    };
    match (int_of(x), int_of(y)) {
        (Some(a), Some(b)) => a == b,
        _ => false,
    }
}

pub fn json_eq_lenient(a: &Value, b: &Value) -> bool {
    match (a, b) {
        (Value::Number(x), Value::Number(y)) => num_same(x, y),
        (Value::Array(x), Value::Array(y)) => x.len() == y.len() && x.iter().zip(y).all(|(p, q)| json_eq_lenient(p, q)),
        (Value::Object(x), Value::Object(y)) => {
            x.len() == y.len() && x.iter().all(|(k, v)| y.get(k).map_or(false, |w| json_eq_lenient(v, w)))
        }
        _ => a == b,
    }
}

fn looks_like_timestamp(s: &str) -> bool {
    let b = s.as_bytes();
    b.len() >= 16 && b[..4].iter().all(|c| c.is_ascii_digit()) && (b[4] == b'-' || b[4].is_ascii_digit())
}

/// the same string with the date/time separator normalised to 'T' parses as RFC 3339
fn only_separator_is_odd(s: &str) -> bool {
    let b = s.as_bytes();
    if b.len() < 20 || !s.is_char_boundary(10) || !s.is_char_boundary(11) {
        return false;
    }
    let t = format!("{}T{}", &s[..10], &s[11..]);
    civil::parse(&t).is_some()
}

fn is_canonical_ts(s: &str) -> bool {
    // separator 'T', 't' or ' ' (all three are RFC 3339, and the quantifier of C11/C12 names 'T' and ' '),
    // 'Z' or ±hh:mm (not -00:00), no leap second
    let b = s.as_bytes();
    if b.len() < 20 || !(b[10] == b'T' || b[10] == b't' || b[10] == b' ') {
        return false;
    }
    if &s[17..19] == "60" {
        return false;
    }
    if s.ends_with('Z') {
        return true;
    }
    if s.ends_with('z') || s.ends_with("-00:00") {
        return false;
    }
    let l = b.len();
    l >= 25 && (b[l - 6] == b'+' || b[l - 6] == b'-')
}

pub fn member_of_value(v: Option<&Value>) -> Member {
    match v {
        None => Member::Absent,
        Some(Value::Null) => Member::Null,
        Some(Value::String(s)) => match civil::parse(s) {
            // outside 0001..=9998 (as UTC) only the rejecting direction is demanded
            Some(t) => Member::Time { t, canonical: is_canonical_ts(s) && t >= civil::ns_from_ymd_hms(1, 1, 2, 0, 0, 0, 0) && t < civil::ns_from_ymd_hms(9999, 1, 1, 0, 0, 0, 0) },
            None => {
                if only_separator_is_odd(s) {
                    Member::Dubious
                } else if looks_like_timestamp(s) {
                    Member::Malformed
                } else {
                    Member::NonTime(Value::String(s.clone()))
                }
            }
        },
        Some(other) => Member::NonTime(other.clone()),
    }
}

impl TokenInfo {
    /// the payload as a JSON value (None when the payload is not JSON)
    pub fn json(&self) -> Option<Value> {
        match &self.content {
            Content::Str(s) => serde_json::from_str(s).ok(),
            Content::Claims(m) => {
                let mut o = serde_json::Map::new();
                for (k, v) in m {
                    match v {
                        MVal::Json(j) => {
                            o.insert(k.clone(), j.clone());
                        }
                        MVal::Instant(t) => {
                            // representative rendering; comparisons of instants go through `member`
                            o.insert(
                                k.clone(),
                                Value::String(civil::render(*t, civil::Style { offset_min: 0, frac_digits: 9, sep: 'T', zulu: Some('Z') })),
                            );
                        }
                    }
                }
                Some(Value::Object(o))
            }
        }
    }
    pub fn member(&self, key: &str) -> Member {
        match &self.content {
            Content::Claims(m) => match m.get(key) {
                None => Member::Absent,
                Some(MVal::Instant(t)) => Member::Time { t: *t, canonical: true },
                Some(MVal::Json(v)) => member_of_value(Some(v)),
            },
            Content::Str(s) => match serde_json::from_str::<Value>(s) {
                Ok(Value::Object(o)) => member_of_value(o.get(key)),
                _ => Member::Absent,
            },
        }
    }
}

/// Does `json` (what the parser returned) equal the model content?
pub fn content_matches(content: &Content, out: &Outcome) -> bool {
    match (content, out) {
        (Content::Str(s), Outcome::OkStr(o)) => s == o,
        (Content::Str(s), Outcome::OkJson(j)) => match serde_json::from_str::<Value>(s) {
            Ok(v) => &v == j,
            Err(_) => false,
        },
        (Content::Claims(_), Outcome::OkStr(s)) => match serde_json::from_str::<Value>(s) {
            // a builder-made token read through the core layer: compare the JSON it carries
            Ok(v) => content_matches(content, &Outcome::OkJson(v)),
            Err(_) => false,
        },
        (Content::Claims(m), Outcome::OkJson(Value::Object(o))) => {
            if o.len() != m.len() {
                return false;
            }
            m.iter().all(|(k, mv)| match (mv, o.get(k)) {
                (_, None) => false,
                (MVal::Json(v), Some(w)) => v == w,
                (MVal::Instant(t), Some(Value::String(s))) => civil::parse(s) == Some(*t),
                (MVal::Instant(_), Some(_)) => false,
            })
        }
        _ => false,
    }
}

fn relation(text: &str, auth: &str, proto: Proto) -> Rel {
    if text == auth {
        return Rel::Verbatim;
    }
    if text.len() == auth.len() + 1 && text.ends_with('.') && &text[..auth.len()] == auth && auth.split('.').count() == 3 {
        return Rel::TolDot;
    }
    if auth.len() == text.len() + 1 && auth.ends_with('.') && &auth[..text.len()] == text && auth.split('.').count() == 4 {
        return Rel::TolDot;
    }
    if !proto.is_local() {
        if let (Some(a), Some(b)) = (Tok::parse(auth), Tok::parse(text)) {
            let tl = proto.tail_len();
            if a.ver == b.ver
                && a.purpose == b.purpose
                && a.footer == b.footer
                && a.payload.len() == b.payload.len()
                && a.payload.len() >= tl
                && a.payload[..a.payload.len() - tl] == b.payload[..b.payload.len() - tl]
                && a.payload != b.payload
                && b.render() == text
            {
                return Rel::TolSig;
            }
        }
    }
    Rel::Altered
}

fn differs_only_in_footer(text: &str, auth: &str) -> bool {
    let a: Vec<&str> = auth.split('.').collect();
    let b: Vec<&str> = text.split('.').collect();
    a.len() >= 3 && b.len() >= 3 && a[..3] == b[..3] && a[3..] != b[3..]
}

pub struct Ctx<'r> {
    pub run: &'r Run,
    pub prop: &'r str,
    pub keys: Vec<KeyMat>,
    pub builders: BTreeMap<u32, BuilderModel>,
    pub tokens: BTreeMap<u32, TokenInfo>,
    pub msgs: BTreeMap<u32, MsgInfo>,
    pub verifiers: BTreeMap<u32, VerifierSpec>,
    pub j: Judgement,
    /// (verifier, text, expected tri) -> verdict classes seen, for history independence
    pub history: BTreeMap<(u32, String), Vec<(usize, String, String)>>,
    pub deliveries_per_verifier: BTreeMap<u32, u32>,
    pub delivered_pairs: BTreeSet<(u32, String)>,
    /// C10: (proto, key) -> list of (event, nonce bytes, token)
    pub nonces: BTreeMap<(Proto, usize), Vec<(usize, Vec<u8>, String)>>,
    /// C06 non-storage groups
    pub issue_groups: BTreeMap<String, Vec<(usize, Option<String>, String)>>,
    /// readback link: msg id -> (event idx of build)
    pub pending_readback: BTreeMap<u32, usize>,
    pub readback_done: BTreeSet<usize>,
}

impl<'r> Ctx<'r> {
    fn is(&self, p: &str) -> bool {
        self.prop == p
    }

    /// record a clause evaluation for property `p`; `ok == false` is a violation
    #[allow(clippy::too_many_arguments)]
    fn clause(&mut self, p: &str, name: &str, event: usize, ok: bool, expected: &str, observed: String, facts: &[(&str, String)]) {
        if self.prop != p {
            return;
        }
        let cname = format!("{}.{}", p, name);
        *self.j.clauses.entry(cname.clone()).or_insert(0) += 1;
        self.j.evaluations += 1;
        self.j.trace.push(format!("{}:{}", cname, if ok { "held" } else { "VIOLATED" }));
        if !ok {
            let mut f = BTreeMap::new();
            for (k, v) in facts {
                f.insert(k.to_string(), v.clone());
            }
            self.j.violations.push(Violation {
                event,
                property: p.to_string(),
                clause: cname,
                expected: expected.to_string(),
                observed,
                facts: f,
            });
        }
    }

    fn unjudged(&mut self, p: &str, name: &str) {
        if self.prop == p {
            *self.j.unjudged.entry(format!("{}.{}", p, name)).or_insert(0) += 1;
        }
    }

    fn key_identity_v(&self, key: usize, proto: Proto) -> Option<Vec<u8>> {
        self.keys.get(key).and_then(|k| k.verifier_identity(proto))
    }
    fn key_identity_i(&self, key: usize, proto: Proto) -> Option<Vec<u8>> {
        self.keys.get(key).and_then(|k| k.issuer_identity(proto))
    }
}

fn expectation_state(expect: &[ClaimSpec], json: &Value) -> (Vec<String>, Vec<String>, Vec<String>) {
    // returns (missing keys, differing keys, keys equal only up to number form: the 1 vs 1.0 latitude)
    let mut missing = vec![];
    let mut differing = vec![];
    let mut lat = vec![];
    // later registrations under the same key replace earlier ones
    let mut cur: BTreeMap<&str, Value> = BTreeMap::new();
    for c in expect {
        cur.insert(c.key(), c.value());
    }
    for (k, v) in cur {
        let got = json.get(k);
        match got {
            None | Some(Value::Null) => missing.push(k.to_string()),
            Some(g) => {
                if g == &v {
                } else if json_eq_lenient(g, &v) {
                    lat.push(k.to_string());
                } else {
                    differing.push(k.to_string());
                }
            }
        }
    }
    (missing, differing, lat)
}

fn time_tri_exp(m: &Member, rmin: i128, rmax: i128) -> Tri {
    match m {
        Member::Absent => Tri::MustAccept,
        Member::Null => Tri::Either,
        Member::Time { t, canonical } => {
            if *t <= rmin {
                Tri::MustReject
            } else if *t > rmax && *canonical {
                Tri::MustAccept
            } else {
                Tri::Either
            }
        }
        Member::Dubious => Tri::Either,
        Member::Malformed => Tri::MustReject,
        Member::NonTime(_) => Tri::MustReject,
    }
}

fn time_tri_nbf(m: &Member, rmin: i128, rmax: i128) -> Tri {
    match m {
        Member::Absent => Tri::MustAccept,
        Member::Null => Tri::Either,
        Member::Time { t, canonical } => {
            if *t > rmax {
                Tri::MustReject
            } else if *t < rmin && *canonical {
                Tri::MustAccept
            } else {
                Tri::Either
            }
        }
        Member::Dubious => Tri::Either,
        Member::Malformed => Tri::MustReject,
        Member::NonTime(_) => Tri::MustReject,
    }
}

fn tri_and(a: Tri, b: Tri) -> Tri {
    match (a, b) {
        (Tri::MustReject, _) | (_, Tri::MustReject) => Tri::MustReject,
        (Tri::MustAccept, Tri::MustAccept) => Tri::MustAccept,
        _ => Tri::Either,
    }
}

fn default_builder_claims(created: i128) -> BTreeMap<String, MVal> {
    let mut m = BTreeMap::new();
    m.insert("exp".to_string(), MVal::Instant(created + 3600 * civil::NS));
    m.insert("iat".to_string(), MVal::Instant(created));
    m.insert("nbf".to_string(), MVal::Instant(created));
    m
}

pub fn judge(prop: &str, run: &Run, obs: &[Obs]) -> Judgement {
    let mut cx = Ctx {
        run,
        prop,
        keys: run.keys.iter().map(keys::resolve).collect(),
        builders: BTreeMap::new(),
        tokens: BTreeMap::new(),
        msgs: BTreeMap::new(),
        verifiers: BTreeMap::new(),
        j: Judgement::default(),
        history: BTreeMap::new(),
        deliveries_per_verifier: BTreeMap::new(),
        delivered_pairs: BTreeSet::new(),
        nonces: BTreeMap::new(),
        issue_groups: BTreeMap::new(),
        pending_readback: BTreeMap::new(),
        readback_done: BTreeSet::new(),
    };
    for (idx, (op, ob)) in run.events.iter().zip(obs.iter()).enumerate() {
        step(&mut cx, idx, op, ob);
    }
    finish(&mut cx);
    cx.j
}

fn step(cx: &mut Ctx, idx: usize, op: &Op, ob: &Obs) {
    if let Obs::Skipped(why) = ob {
        cx.j.trace.push(format!("skipped:{}", why.split(' ').next().unwrap_or("")));
        // a verifier that cannot even be constructed from the public half of a GENUINE key pair (one the
        // harness derived with an independent implementation) can never "verify under the corresponding
        // public key"
        if let Op::NewVerifier { spec, .. } = op {
            if why.contains("constructor refused") {
                let genuine = spec.proto == Proto::V3P && matches!(cx.keys.get(spec.key), Some(KeyMat::P384 { .. }));
                if genuine {
                    cx.clause("C02", "genuine_public_key_is_accepted", idx, false, "the key constructor accepts the public half of a valid key pair", why.clone(), &[("proto", spec.proto.name().into())]);
                }
            }
        }
        return;
    }
    match (op, ob) {
        (Op::NewBuilder { b, proto, layer, now_ns, .. }, Obs::NewBuilder { reads, panic }) => {
            cx.j.time(now_ns.0);
            cx.j.trace.push(format!("new_builder:{}:{:?}", proto.name(), layer));
            if *layer == Layer::Batteries {
                cx.clause("C13", "default_no_panic", idx, panic.is_none(), "PasetoBuilder::default() returns", format!("{:?}", panic), &[]);
                if reads.len() > 1 {
                    // the executor serves +1 ns on every further read: if the defaults are derived from
                    // different reads, `defaults_are_creation_time_and_one_hour` sees it
                    cx.j.probe("builder_default_read_the_clock_more_than_once");
                }
                let sub = now_ns.0.rem_euclid(civil::NS);
                if sub == 0 {
                    cx.j.probe("builder_created_on_whole_second");
                }
            }
            if panic.is_some() {
                return;
            }
            let claims = if *layer == Layer::Batteries { default_builder_claims(now_ns.0) } else { BTreeMap::new() };
            cx.builders.insert(
                *b,
                BuilderModel {
                    proto: *proto,
                    layer: *layer,
                    created: now_ns.0,
                    claims,
                    footer: None,
                    assertion: None,
                    ack: false,
                    supplied: BTreeSet::new(),
                    dups: BTreeSet::new(),
                    exp_after_ack: false,
                    alive: true,
                    builds_ok: 0,
                    builds_failed: 0,
                    refused_exp_after_ack: false,
                    ops: 0,
                },
            );
        }
        (Op::BuilderOp { b, op }, Obs::BuilderOp { applied, panic, peek }) => {
            let p = cx.prop.to_string();
            if let Some(at) = panic {
                for pp in ["C13", "C14", "C17"] {
                    cx.clause(pp, "builder_op_no_panic", idx, false, "builder call returns", format!("panic at {}", at), &[]);
                }
                if let Some(m) = cx.builders.get_mut(b) {
                    m.alive = false;
                }
                return;
            }
            let _ = p;
            let m = match cx.builders.get_mut(b) {
                Some(m) => m,
                None => return,
            };
            m.ops += 1;
            if !*applied {
                cx.j.trace.push("bop:not_applied".into());
                return;
            }
            match op {
                BOp::ExtendClaims(map) => {
                    cx.j.trace.push("bop:extend".into());
                    for (k, v) in map {
                        m.claims.insert(k.clone(), MVal::Json(v.clone()));
                    }
                }
                BOp::SetClaim(c) => {
                    let k = c.key().to_string();
                    cx.j.trace.push(format!("bop:set:{}", if ["exp", "nbf", "iat", "iss", "sub", "aud", "jti"].contains(&k.as_str()) { k.as_str() } else { "custom" }));
                    if m.layer == Layer::Batteries {
                        if k == "exp" && m.ack && !m.supplied.contains("exp") {
                            // the one latitude of C17: exp supplied (once) after the acknowledgement
                            m.exp_after_ack = true;
                            m.supplied.insert(k.clone());
                        } else if !m.supplied.insert(k.clone()) {
                            m.dups.insert(k.clone());
                        }
                    }
                    if !k.is_empty() {
                        m.claims.insert(k, MVal::Json(c.value()));
                    }
                }
                BOp::RemoveClaim(k) => {
                    cx.j.trace.push("bop:remove".into());
                    m.claims.remove(k);
                }
                BOp::Ack => {
                    cx.j.trace.push("bop:ack".into());
                    m.ack = true;
                }
                BOp::SetFooter(f) => {
                    cx.j.trace.push("bop:footer".into());
                    m.footer = Some(f.clone());
                }
                BOp::SetAssertion(a) => {
                    cx.j.trace.push("bop:assertion".into());
                    m.assertion = Some(a.clone());
                }
                BOp::PeekPayload => {
                    cx.j.trace.push("bop:peek".into());
                    // no effect on the builder; the text describes exactly the claims set so far
                    let want = Content::Claims(m.claims.clone());
                    let (ok, got) = match peek {
                        Some(Ok(s)) => (content_matches(&want, &Outcome::OkStr(s.clone())), s.clone()),
                        Some(Err(e)) => (false, format!("error: {}", e)),
                        None => (false, "no result".into()),
                    };
                    cx.clause("C14", "payload_preview_describes_the_claims_set", idx, ok, "JSON object equal to the claims set so far", got, &[]);
                }
            }
        }
        (Op::Build { b, key, out, entropy_fail, observe, .. }, Obs::Build { result, draws, reads }) => {
            judge_build(cx, idx, *b, *key, *out, entropy_fail, *observe, result, draws, reads);
        }
        (Op::CoreIssue { proto, key, nonce_hex, payload, footer, assertion, out, .. }, Obs::Issue { result }) => {
            cx.j.trace.push(format!("core_issue:{}:{}", proto.name(), result.verdict_class()));
            match result {
                Outcome::OkStr(t) => {
                    cx.tokens.insert(
                        *out,
                        TokenInfo {
                            proto: *proto,
                            layer: Layer::Core,
                            key: *key,
                            footer: footer.clone(),
                            assertion: assertion.clone(),
                            content: Content::Str(payload.clone()),
                            text: t.clone(),
                            event: idx,
                            snapshot: None,
                            builder: None,
                        },
                    );
                    cx.msgs.insert(*out, MsgInfo { text: t.clone(), root: Some(*out), faults: vec![], foreign: None });
                    judge_token_structure(cx, idx, t, *proto, footer, assertion);
                    if proto.has_assertion() {
                        let gk = format!("{}|{}|{}|{}|{:?}", proto.name(), key, nonce_hex, payload, footer);
                        cx.issue_groups.entry(gk).or_default().push((idx, assertion.clone(), t.clone()));
                    }
                }
                Outcome::Panic { at } => {
                    for pp in ["C01", "C02"] {
                        let applies = (pp == "C01") == proto.is_local();
                        if applies {
                            cx.clause(pp, "issue_no_panic", idx, false, "encrypt/sign returns", format!("panic at {}", at), &[]);
                        }
                    }
                }
                Outcome::Err { .. } => {
                    // issuing with a valid key must succeed (C01/C02); bad keys are generated only by
                    // the failing-build scenarios which use builders
                    let valid = cx.key_identity_i(*key, *proto).is_some();
                    if valid {
                        let pp = if proto.is_local() { "C01" } else { "C02" };
                        cx.clause(pp, "issue_succeeds", idx, false, "Ok(token)", result.short(), &[]);
                    }
                }
                _ => {}
            }
        }
        (Op::Fault { src, out, kind, .. }, Obs::Fault { text }) => {
            if let Some(t) = text {
                let name = fault_name(kind);
                cx.j.fire(name);
                cx.j.trace.push(format!("fault:{}", name));
                let (root, mut fl, foreign) = match cx.msgs.get(src) {
                    Some(m) => (m.root, m.faults.clone(), m.foreign.clone()),
                    None => (None, vec![], None),
                };
                fl.push(name.to_string());
                cx.msgs.insert(*out, MsgInfo { text: t.clone(), root, faults: fl, foreign });
            } else {
                cx.j.trace.push("fault:n/a".into());
            }
        }
        (Op::Literal { out, text }, Obs::Literal) => {
            cx.j.fire("Garbage/Literal");
            cx.j.trace.push("literal".into());
            cx.msgs.insert(*out, MsgInfo { text: text.clone(), root: None, faults: vec!["Literal".into()], foreign: None });
        }
        (Op::Imported { out, text, proto, key, payload, footer, assertion }, Obs::Literal) => {
            cx.j.trace.push(format!("imported:{}", proto.name()));
            cx.tokens.insert(
                *out,
                TokenInfo {
                    proto: *proto,
                    layer: Layer::Core,
                    key: *key,
                    footer: footer.clone(),
                    assertion: assertion.clone(),
                    content: Content::Str(payload.clone()),
                    text: text.clone(),
                    event: idx,
                    snapshot: None,
                    builder: None,
                },
            );
            cx.msgs.insert(*out, MsgInfo { text: text.clone(), root: Some(*out), faults: vec![], foreign: None });
        }
        (Op::NewVerifier { v, spec }, Obs::NewVerifier { ok, .. }) => {
            if *ok {
                cx.verifiers.insert(*v, spec.clone());
                cx.j.trace.push(format!(
                    "new_verifier:{}:{:?}:e{}:v{}:{}",
                    spec.proto.name(),
                    spec.layer,
                    spec.expect.len(),
                    spec.validators.len(),
                    if spec.default_validators { "default" } else { "plain" }
                ));
            } else {
                cx.clause("C09", "verifier_construct_no_panic", idx, false, "constructor returns", format!("{:?}", ob), &[]);
            }
        }
        (Op::Deliver { msg, to, now_ns, ticks, twin: _, control: _, key }, Obs::Deliver { main, twin, control }) => {
            judge_deliver(cx, idx, *msg, *to, now_ns.0, ticks, main, twin.as_ref(), control.as_ref(), *key);
        }
        (Op::Reconfigure { v, op }, Obs::Reconfigure { applied }) => {
            cx.j.trace.push(format!("reconfigure:{}", applied));
            if *applied {
                cx.j.fire("ReconfigureLiveParser");
                if let Some(spec) = cx.verifiers.get_mut(v) {
                    match op {
                        VOp::CheckClaim(c) => spec.expect.push(c.clone()),
                        VOp::ValidateClaim(vs) => spec.validators.push(vs.clone()),
                        VOp::SetFooter(f) => spec.footer = Some(f.clone()),
                        VOp::SetAssertion(a) => spec.assertion = Some(a.clone()),
                        _ => {}
                    }
                }
            }
        }
        (Op::Reconfigure { v, .. }, Obs::ReconfigureResolved { applied, as_op }) => {
            cx.j.trace.push(format!("reconfigure_prefix:{}", applied));
            if *applied {
                cx.j.fire("ReconfigureSameBufferSlice");
                if let Some(spec) = cx.verifiers.get_mut(v) {
                    match as_op {
                        VOp::SetFooter(f) => spec.footer = Some(f.clone()),
                        VOp::SetAssertion(a) => spec.assertion = Some(a.clone()),
                        _ => {}
                    }
                }
            }
        }
        (Op::ForeignIssue { proto, key, payload_hex, footer, assertion, out, .. }, Obs::ForeignIssue { issued }) => {
            cx.j.trace.push(format!("foreign_issue:{}:{}", proto.name(), issued));
            if *issued {
                cx.j.fire("ForeignIssuer");
                let utf8 = hex::decode(payload_hex).ok().map_or(false, |b| std::str::from_utf8(&b).is_ok());
                // the text itself is not known to the model (the executor holds it): deliveries look it up by id
                cx.msgs.insert(*out, MsgInfo { text: format!("<foreign:{}>", out), root: None, faults: vec![], foreign: Some((*proto, *key, utf8, footer.clone(), assertion.clone())) });
            }
        }
        (Op::RecoverKey { slot, .. }, Obs::RecoverKey { public_hex }) => {
            cx.j.trace.push(format!("recover_key:{}", public_hex.is_some()));
            if let Some(bytes) = public_hex.as_ref().and_then(|h| hex::decode(h).ok()) {
                cx.j.fire("RecoveredAlternateKey");
                if *slot < cx.keys.len() {
                    cx.keys[*slot] = KeyMat::RawPublic(bytes);
                }
            }
        }
        (Op::ScriptEntropy { .. }, Obs::Scripted) => {
            cx.j.fire("EntropyReplayedFromRecording");
        }
        (Op::ConcurrentIssuers { proto, threads, builds_each, draws_each, .. }, Obs::Concurrent { builds_ok, builds_failed, distinct_nonces, distinct_tokens, draws_ok, distinct_draws }) => {
            cx.j.trace.push(format!("concurrent_issuers:{}:{}", proto.name(), threads));
            cx.j.fire("EntropyObserve");
            cx.j.fire("ConcurrentCallers");
            cx.j.nontrivial |= cx.is("C10");
            let f = [("proto", proto.name().to_string()), ("threads", threads.to_string())];
            cx.clause("C10", "concurrent_builds_succeed", idx, *builds_failed == 0 && *builds_ok == threads * builds_each && *draws_ok == threads * draws_each, "every build and draw of every caller thread succeeds", format!("{} ok, {} failed of {}; {} draws of {}", builds_ok, builds_failed, threads * builds_each, draws_ok, threads * draws_each), &f);
            cx.clause("C10", "concurrent_issuers_nonces_pairwise_distinct", idx, distinct_nonces == builds_ok, "all nonce fields of all caller threads distinct under one key", format!("{} distinct among {} builds", distinct_nonces, builds_ok), &f);
            cx.clause("C10", "concurrent_issuers_tokens_pairwise_distinct", idx, distinct_tokens == builds_ok, "all tokens of all caller threads distinct", format!("{} distinct among {} builds", distinct_tokens, builds_ok), &f);
            cx.clause("C10", "concurrent_draws_pairwise_distinct", idx, distinct_draws == draws_ok, "all draws of all caller threads distinct", format!("{} distinct among {} draws", distinct_draws, draws_ok), &f);
        }
        (Op::DrawKeys { n }, Obs::Draws { ok, failed, distinct, constant_positions, worst_bit_dev_centisigma }) => {
            cx.j.trace.push(format!("draw_keys:{}", n));
            cx.j.fire("EntropyObserve");
            cx.j.probe("observe_arm_direct_draws");
            cx.j.nontrivial |= cx.is("C10");
            cx.clause("C10", "entropy_draws_succeed", idx, *failed == 0 && *ok == *n, "every draw of the random-key constructor succeeds", format!("{} ok, {} failed of {}", ok, failed, n), &[]);
            cx.clause("C10", "entropy_draws_pairwise_distinct", idx, distinct == ok, "all 32-byte draws of the builders' nonce source distinct", format!("{} distinct among {} draws", distinct, ok), &[]);
            cx.clause("C10", "entropy_draws_no_constant_byte", idx, *constant_positions == 0, "no byte position constant", format!("{} constant positions", constant_positions), &[]);
            cx.clause("C10", "entropy_draws_bit_frequency", idx, *worst_bit_dev_centisigma <= 1000, "every bit's one-count within n/2 +- 10 sigma", format!("worst deviation {:.2} sigma", *worst_bit_dev_centisigma as f64 / 100.0), &[]);
        }
        (Op::KeyParse { n, text }, Obs::KeyParse { outcome }) => {
            cx.j.trace.push(format!("key_parse:{}:{}", n, outcome.verdict_class()));
            let at = match outcome {
                Outcome::Panic { at } => at.clone(),
                _ => String::new(),
            };
            cx.clause(
                "C09",
                "key_parse_no_panic",
                idx,
                !outcome.is_panic(),
                "Ok or Err",
                outcome.short(),
                &[("site", at), ("n", n.to_string()), ("hex_len", text.len().to_string())],
            );
            // a correct-length all-hex string must parse, anything else must be an error
            let all_hex = text.bytes().all(|c| c.is_ascii_hexdigit());
            if !outcome.is_panic() {
                let should_ok = all_hex && text.len() == 2 * n;
                cx.clause("C09", "key_parse_verdict", idx, outcome.is_ok() == should_ok, if should_ok { "Ok" } else { "Err" }, outcome.short(), &[]);
            }
            if text.len() != 2 * n {
                cx.j.nontrivial = true;
            }
            // C04 at the door where keys enter as text: a hex string that is accepted denotes exactly its
            // bytes (two different key strings must not collapse into one key)
            if let Outcome::OkStr(got) = outcome {
                let want = text.to_ascii_lowercase();
                cx.clause("C04", "hex_key_denotes_its_bytes", idx, got == &want, &want, got.clone(), &[("n", n.to_string())]);
                cx.j.nontrivial |= cx.is("C04");
            }
        }
        _ => {
            cx.j.trace.push("obs_mismatch".into());
        }
    }
}

fn judge_token_structure(cx: &mut Ctx, idx: usize, text: &str, proto: Proto, footer: &Option<String>, assertion: &Option<String>) {
    // C05 structural clause
    let parts: Vec<&str> = text.split('.').collect();
    let ok = match footer.as_deref() {
        None => parts.len() == 3,
        Some("") => parts.len() == 3 || (parts.len() == 4 && parts[3].is_empty()),
        Some(f) => parts.len() == 4 && parts[3] == faults::b64(f.as_bytes()),
    };
    cx.clause(
        "C05",
        "footer_segment_is_b64_of_footer",
        idx,
        ok,
        "4th segment == base64url_nopad(footer) (absent when no footer)",
        format!("{} segments, last={:?}", parts.len(), parts.last()),
        &[("proto", proto.name().to_string())],
    );
    if footer.as_deref() == Some("") && parts.len() == 4 {
        cx.j.probe("explicit_empty_footer_emits_trailing_dot");
    }
    // header sanity (C07 relies on it)
    cx.clause("C07", "issued_header", idx, text.starts_with(proto.header()), proto.header(), text.chars().take(12).collect(), &[]);
    // C06 occurrence clause
    if let Some(a) = assertion {
        // (not judged when the caller put the same text into the footer: the footer is stored by design)
        let in_footer = footer.as_deref().map_or(false, |f| f.contains(a.as_str()));
        if proto.has_assertion() && a.len() >= 24 && a.bytes().all(|c| c.is_ascii_alphanumeric()) && !in_footer {
            let b = faults::b64(a.as_bytes());
            let mut ok = !text.contains(a.as_str()) && !text.contains(&b);
            if let Some(t) = Tok::parse(text) {
                let hay = &t.payload;
                let nee = a.as_bytes();
                if hay.windows(nee.len()).any(|w| w == nee) {
                    ok = false;
                }
                if let Some(f) = &t.footer {
                    if f.windows(nee.len()).any(|w| w == nee) {
                        ok = false;
                    }
                }
            }
            cx.clause("C06", "assertion_not_in_token", idx, ok, "assertion bytes do not occur in the token", "assertion found in token".into(), &[("proto", proto.name().to_string())]);
        }
    }
}

#[allow(clippy::too_many_arguments)]
fn judge_build(
    cx: &mut Ctx,
    idx: usize,
    b: u32,
    key: usize,
    out: u32,
    entropy_fail: &[usize],
    observe: bool,
    result: &Outcome,
    draws: &[DrawObs],
    reads: &[(String, Ns)],
) {
    let m = match cx.builders.get(&b) {
        Some(m) if m.alive => m.clone(),
        _ => return,
    };
    let proto = m.proto;
    cx.j.trace.push(format!("build:{}:{:?}:{}", proto.name(), m.layer, result.verdict_class()));
    let key_ok = cx.key_identity_i(key, proto).is_some();
    let entropy_failed = draws.iter().any(|d| d.failed);
    if !entropy_fail.is_empty() && entropy_failed {
        cx.j.fire("EntropyFail");
    }
    if !key_ok {
        cx.j.fire("BadSigningKey");
    }
    if observe {
        cx.j.fire("EntropyObserve");
    }
    if !reads.is_empty() {
        cx.j.probe("build_read_the_clock");
    }
    if let Outcome::Panic { at } = result {
        for pp in ["C10", "C13", "C14", "C17", "C01", "C02"] {
            cx.clause(pp, "build_no_panic", idx, false, "build returns", format!("panic at {}", at), &[]);
        }
        if let Some(mm) = cx.builders.get_mut(&b) {
            mm.alive = false;
        }
        return;
    }

    // ---- C10: entropy failure => no token; nonce bookkeeping
    if proto.is_local() {
        if entropy_failed {
            cx.clause("C10", "entropy_failure_yields_no_token", idx, result.is_err(), "Err, no token", result.short(), &[("proto", proto.name().into())]);
            cx.j.nontrivial |= cx.is("C10");
        }
        if let Outcome::OkStr(t) = result {
            let ndraws = draws.iter().filter(|d| !d.failed).count();
            cx.clause("C10", "build_draws_entropy", idx, ndraws >= 1, ">=1 entropy draw per local build", format!("{} draws", ndraws), &[("proto", proto.name().into())]);
            if let Some(tk) = Tok::parse(t) {
                let n = proto.nonce_len();
                if tk.payload.len() >= n {
                    cx.nonces.entry((proto, key)).or_default().push((idx, tk.payload[..n].to_vec(), t.clone()));
                }
            }
        }
    }

    // ---- duplicate / readiness model (C17, C13)
    let is_bat = m.layer == Layer::Batteries;
    let must_fail_dup = is_bat && !m.dups.is_empty();
    let may_fail_exp = is_bat && m.exp_after_ack;
    let env_fail = entropy_failed || !key_ok;

    if is_bat {
        if must_fail_dup {
            let named_ok = match result {
                Outcome::Err { variant, args, .. } if variant == "DuplicateTopLevelPayloadClaim" => {
                    args.first().map_or(false, |k| m.dups.contains(k) || (may_fail_exp && k == "exp"))
                }
                _ => false,
            };
            cx.clause(
                "C17",
                "duplicate_makes_build_fail",
                idx,
                named_ok,
                &format!("Err(DuplicateTopLevelPayloadClaim(k)), k in {:?}", m.dups),
                result.short(),
                &[("proto", proto.name().into()), ("builds_before", (m.builds_ok + m.builds_failed).to_string())],
            );
            if m.builds_ok + m.builds_failed > 0 {
                cx.j.probe("duplicate_checked_on_repeated_build");
            }
            cx.j.nontrivial |= cx.is("C17");
        } else if may_fail_exp {
            let fine = match result {
                Outcome::OkStr(_) => !m.refused_exp_after_ack,
                Outcome::Err { variant, args, .. } if variant == "DuplicateTopLevelPayloadClaim" => args.first().map_or(false, |k| k == "exp"),
                Outcome::Err { .. } => env_fail,
                _ => false,
            };
            cx.clause("C17", "exp_after_ack_latitude", idx, fine, "Ok (exp ignored) or Err(Duplicate(exp)), sticky once refused", result.short(), &[]);
            if matches!(result, Outcome::Err { variant, .. } if variant == "DuplicateTopLevelPayloadClaim") {
                cx.j.probe("exp_after_ack_refused");
                if let Some(mm) = cx.builders.get_mut(&b) {
                    mm.refused_exp_after_ack = true;
                }
            } else if result.is_ok() {
                cx.j.probe("exp_after_ack_ignored");
            }
            cx.j.nontrivial |= cx.is("C17");
        } else if !env_fail {
            cx.clause(
                "C17",
                "no_duplicate_builds_ok",
                idx,
                result.is_ok(),
                "Ok(token)",
                result.short(),
                &[("proto", proto.name().into()), ("builds_before", (m.builds_ok + m.builds_failed).to_string())],
            );
        }
    } else if !env_fail {
        cx.clause("C14", "generic_build_ok", idx, result.is_ok(), "Ok(token)", result.short(), &[("proto", proto.name().into())]);
    }
    if env_fail && !must_fail_dup {
        for pp in ["C13", "C17"] {
            if is_bat {
                cx.clause(pp, "failing_build_yields_no_token", idx, result.is_err(), "Err, no token", result.short(), &[]);
            }
        }
    }

    match result {
        Outcome::OkStr(t) => {
            // the token's model content is the builder's claim state at this moment
            let mut content = m.claims.clone();
            if is_bat && m.ack {
                content.remove("exp");
            }
            cx.tokens.insert(
                out,
                TokenInfo {
                    proto,
                    layer: m.layer,
                    key,
                    footer: m.footer.clone(),
                    assertion: m.assertion.clone(),
                    content: Content::Claims(content),
                    text: t.clone(),
                    event: idx,
                    snapshot: Some(m.clone()),
                    builder: Some(b),
                },
            );
            cx.msgs.insert(out, MsgInfo { text: t.clone(), root: Some(out), faults: vec![], foreign: None });
            cx.pending_readback.insert(out, idx);
            judge_token_structure(cx, idx, t, proto, &m.footer, &m.assertion);
            if let Some(mm) = cx.builders.get_mut(&b) {
                if mm.builds_ok + mm.builds_failed > 0 {
                    cx.j.probe("repeated_build_from_one_builder");
                    if mm.builds_failed > 0 {
                        cx.j.probe("build_after_failed_build");
                    }
                }
                mm.builds_ok += 1;
            }
        }
        _ => {
            if let Some(mm) = cx.builders.get_mut(&b) {
                mm.builds_failed += 1;
            }
        }
    }
}

#[allow(clippy::too_many_arguments)]
fn judge_deliver(
    cx: &mut Ctx,
    idx: usize,
    msg: u32,
    to: u32,
    now: i128,
    ticks: &[Ns],
    main: &DeliverObs,
    twin: Option<&DeliverObs>,
    control: Option<&DeliverObs>,
    key_override: Option<usize>,
) {
    cx.j.time(now);
    let mut v = match cx.verifiers.get(&to) {
        Some(v) => v.clone(),
        None => return,
    };
    if let Some(k) = key_override {
        // parse(token, key) takes the key per call: the same parser object, another key
        v.key = k;
        cx.j.fire("KeySwitchOnLiveParser");
    }
    let m = match cx.msgs.get(&msg) {
        Some(m) => m.clone(),
        None => return,
    };
    let out = &main.outcome;
    let ndeliv = {
        let e = cx.deliveries_per_verifier.entry(to).or_insert(0);
        *e += 1;
        *e
    };
    if !cx.delivered_pairs.insert((to, m.text.clone())) {
        cx.j.fire("DuplicateDelivery");
    }
    if twin.is_some() {
        cx.j.fire("RestartTwin");
    }
    if ticks.iter().any(|t| t.0 != 0) {
        cx.j.fire("ClockTickDuringParse");
    }
    let vname = format!("{}:{:?}", v.proto.name(), v.layer);

    // -------- C09: the call returns
    let panic_site = match out {
        Outcome::Panic { at } => at.split(' ').next().unwrap_or("").to_string(),
        _ => String::new(),
    };
    cx.clause(
        "C09",
        "parse_no_panic",
        idx,
        !out.is_panic(),
        "Ok or Err",
        out.short(),
        &[("site", panic_site.clone()), ("entry", vname.clone())],
    );
    if let Some(t) = twin {
        if t.outcome.is_panic() && !out.is_panic() {
            cx.clause("C09", "parse_no_panic", idx, false, "Ok or Err (fresh parser)", t.outcome.short(), &[("entry", vname.clone())]);
        }
    }

    // -------- C11 / C12: the time rules are evaluated against a reading taken for THIS parse
    for (site, pp) in [("STALE:parser_exp", "C11"), ("STALE:parser_nbf", "C12")] {
        if v.default_validators && v.layer == Layer::Batteries {
            let stale = main.reads.iter().any(|r| r.0 == site);
            if stale || ndeliv > 1 {
                cx.clause(pp, "clock_is_read_for_each_parse", idx, !stale, "a fresh wall-clock reading per parse", "the reading handed to the clock seam is the one of an earlier parse (or of construction) although the wall clock has advanced".into(), &[("entry", vname.clone())]);
            }
        }
    }

    // -------- C07: whatever the body is, a header that names another protocol is refused
    if let Some(tp) = Proto::from_header_prefix(&m.text) {
        if tp != v.proto {
            cx.clause(
                "C07",
                "header_naming_other_protocol_rejected",
                idx,
                out.is_err(),
                "Err",
                out.short(),
                &[("header", tp.name().to_string()), ("to", vname.clone()), ("site", panic_site.clone())],
            );
            cx.j.nontrivial |= cx.is("C07");
        }
    }

    if let Some((fproto, fkey, utf8, ffooter, fassertion)) = &m.foreign {
        // a foreign issuer's token (or an altered copy of one): crash freedom only (judged above);
        // what the verifier made of it is recorded as probes
        let matching = m.faults.is_empty()
            && *fproto == v.proto
            && cx.key_identity_v(v.key, v.proto).is_some()
            && cx.key_identity_v(v.key, v.proto) == cx.key_identity_i(*fkey, *fproto)
            && opt_equiv(&v.footer, ffooter)
            && opt_equiv(&if v.proto.has_assertion() { v.assertion.clone() } else { None }, &if fproto.has_assertion() { fassertion.clone() } else { None });
        cx.j.trace.push(format!("deliver:foreign:{}:{}:{}:{}", vname, matching, utf8, out.verdict_class()));
        cx.j.nontrivial |= cx.is("C09");
        if matching {
            let variant = match out {
                Outcome::Err { variant, .. } => variant.clone(),
                Outcome::Panic { .. } => "panic".to_string(),
                _ => "ok".to_string(),
            };
            if *utf8 {
                cx.j.probe(if out.is_ok() { "foreign_utf8_token_accepted" } else if v.layer == Layer::Core { "foreign_utf8_token_refused_by_core" } else { "foreign_utf8_token_refused_by_parser_layer" });
            } else {
                cx.j.probe(&format!("foreign_non_utf8_token:{}", variant));
                // a `String` that is not UTF-8 is undefined behaviour in the caller: crash class
                cx.clause("C09", "non_utf8_plaintext_is_an_error", idx, !out.is_ok(), "Err (the authentic plaintext is not UTF-8)", out.short(), &[("entry", vname.clone())]);
            }
        }
        return;
    }
    let root = match m.root.and_then(|r| cx.tokens.get(&r)).cloned() {
        Some(r) => r,
        None => {
            // garbage from a byzantine sender: unauthenticated by construction
            cx.j.trace.push(format!("deliver:garbage:{}:{}", vname, out.verdict_class()));
            cx.j.nontrivial |= cx.is("C09");
            if !v.validators.is_empty() {
                let ok = main.calls.is_empty() && !out.is_ok();
                cx.clause("C16", "unauthenticated_never_reaches_validators", idx, ok, "Err and no validator call", format!("{} calls={}", out.short(), main.calls.len()), &[]);
            }
            return;
        }
    };
    let mut rel = relation(&m.text, &root.text, root.proto);
    // the altered string may coincide with another authentic token of the run
    if rel == Rel::Altered {
        if cx.tokens.values().any(|t| t.text == m.text) {
            cx.unjudged("C03", "coincides_with_other_authentic_token");
            cx.j.trace.push("deliver:coincides".into());
            return;
        }
    }
    let proto_match = v.proto == root.proto;
    let key_match = match (cx.key_identity_v(v.key, v.proto), cx.key_identity_i(root.key, root.proto)) {
        (Some(a), Some(b)) => a == b,
        _ => false,
    };
    let footer_match = opt_equiv(&v.footer, &root.footer);
    let assert_match = opt_equiv(
        &if v.proto.has_assertion() { v.assertion.clone() } else { None },
        &if root.proto.has_assertion() { root.assertion.clone() } else { None },
    );
    let cfg_match = proto_match && key_match && footer_match && assert_match;
    if !proto_match {
        cx.j.fire("MisrouteProtocol");
    } else {
        if !key_match {
            cx.j.fire("MisrouteKey");
        }
        if !footer_match {
            cx.j.fire("MisrouteFooter");
        }
        if !assert_match {
            cx.j.fire("MisrouteAssertion");
        }
    }
    let rel_s = match rel {
        Rel::Verbatim => "verbatim",
        Rel::TolDot => "tol_dot",
        Rel::TolSig => "tol_sig",
        Rel::Altered => "altered",
    };
    cx.j.trace.push(format!(
        "deliver:{}:{}:{}{}{}{}:{}",
        vname,
        rel_s,
        if proto_match { "" } else { "P" },
        if key_match { "" } else { "K" },
        if footer_match { "" } else { "F" },
        if assert_match { "" } else { "A" },
        out.verdict_class()
    ));
    if rel != Rel::Verbatim || !cfg_match || ndeliv > 1 {
        cx.j.nontrivial = true;
    }

    // time window of the clock reads this parse can make (at most two: exp and nbf validators)
    let r0 = now;
    let r1 = now + ticks.first().map_or(0, |t| t.0);
    let (rmin, rmax) = (r0.min(r1), r0.max(r1));

    let json = root.json();
    let json_obj = matches!(json, Some(Value::Object(_)));
    let is_parser_layer = v.layer != Layer::Core;

    // ---------------------------------------------------------------------------------------
    // C07: wrong protocol
    if !proto_match {
        let facts = [("from", root.proto.name().to_string()), ("to", vname.clone()), ("site", panic_site.clone())];
        cx.clause("C07", "other_protocol_rejected", idx, out.is_err(), "Err", out.short(), &facts);
        if rel == Rel::Verbatim {
            cx.clause("C07", "verbatim_cross_protocol_no_validator", idx, main.calls.is_empty(), "no validator call", format!("{} calls", main.calls.len()), &facts);
        }
        if m.faults.iter().any(|f| f == "Relabel") {
            cx.j.probe("relabelled_token_presented");
        }
        if !v.validators.is_empty() {
            let ok = main.calls.is_empty() && !out.is_ok();
            cx.clause("C16", "unauthenticated_never_reaches_validators", idx, ok, "Err and no validator call", format!("{} calls={}", out.short(), main.calls.len()), &[("why", "protocol".into())]);
        }
        return;
    }

    // ---------------------------------------------------------------------------------------
    // C03: altered in transit (verifier otherwise matching)
    if rel != Rel::Verbatim && key_match && assert_match && footer_match {
        let only_footer = differs_only_in_footer(&m.text, &root.text);
        let facts = [
            ("proto", root.proto.name().to_string()),
            ("layer", format!("{:?}", v.layer)),
            ("faults", m.faults.join("+")),
            ("site", panic_site.clone()),
        ];
        match rel {
            Rel::Altered => {
                let class_ok = matches!(out, Outcome::Err { class: ErrClass::Cipher, .. });
                if footer_match {
                    cx.clause("C03", "altered_token_rejected_before_use", idx, class_ok && main.calls.is_empty(), "Err(auth/format class), no validator call", format!("{} calls={}", out.short(), main.calls.len()), &facts);
                    if let Some(t) = twin {
                        let ok = matches!(t.outcome, Outcome::Err { class: ErrClass::Cipher, .. }) && t.calls.is_empty();
                        cx.clause("C03", "altered_token_rejected_before_use", idx, ok, "Err(auth/format class), no validator call (fresh parser)", t.outcome.short(), &facts);
                    }
                }
                if only_footer && footer_match {
                    cx.clause("C05", "footer_edit_rejected", idx, out.is_err(), "Err", out.short(), &facts);
                }
            }
            Rel::TolDot | Rel::TolSig => {
                if footer_match {
                    let ok = match out {
                        Outcome::Err { class: ErrClass::Cipher, .. } => main.calls.is_empty(),
                        o if o.is_ok() => acceptable_ok(&root, &v, o),
                        _ => false,
                    };
                    cx.clause("C03", "tolerated_variant_same_content_or_rejected", idx, ok, "Err(auth/format) or Ok with exactly the original content", out.short(), &facts);
                    if out.is_ok() {
                        cx.j.probe(if rel == Rel::TolDot { "trailing_dot_variant_accepted" } else { "reencoded_signature_accepted" });
                    } else {
                        cx.j.probe(if rel == Rel::TolDot { "trailing_dot_variant_rejected" } else { "reencoded_signature_rejected" });
                    }
                }
            }
            Rel::Verbatim => {}
        }
    }

    // C16(1): anything not authentic for this verifier must not reach a validator
    let authentic_for_v = cfg_match && rel != Rel::Altered;
    if !authentic_for_v && !v.validators.is_empty() {
        let ok = main.calls.is_empty() && matches!(out, Outcome::Err { class: ErrClass::Cipher, .. } | Outcome::Panic { .. });
        let why = if rel == Rel::Altered { "altered" } else if !key_match { "key" } else if !footer_match { "footer" } else { "assertion" };
        cx.clause("C16", "unauthenticated_never_reaches_validators", idx, ok, "Err(cipher class) and no validator call", format!("{} calls={}", out.short(), main.calls.len()), &[("why", why.into())]);
    }
    if !authentic_for_v && v.default_validators {
        // the default exp/nbf validators are observed through the clock seam
        cx.clause("C16", "unauthenticated_never_reaches_default_validators", idx, main.reads.is_empty(), "no clock read", format!("{:?}", main.reads), &[]);
    }

    if rel == Rel::Altered && !(key_match && footer_match && assert_match) {
        // altered in transit AND presented under another key / footer / assertion (e.g. a forged
        // re-split: footer segment rewritten, assertion changed to match): never acceptable either
        let facts = [
            ("proto", root.proto.name().to_string()),
            ("layer", format!("{:?}", v.layer)),
            ("faults", m.faults.join("+")),
            ("token_footer", format!("{:?}", root.footer)),
            ("expected_footer", format!("{:?}", v.footer)),
            ("token_assertion", format!("{:?}", root.assertion)),
            ("expected_assertion", format!("{:?}", v.assertion)),
        ];
        if key_match {
            // C03 does not depend on what footer / assertion the verifier expects: a re-spliced token (e.g.
            // message tail moved into the footer segment, presented with the footer it now carries) is
            // never acceptable under the producing key
            let ok = matches!(out, Outcome::Err { class: ErrClass::Cipher, .. }) && main.calls.is_empty();
            cx.clause("C03", "altered_token_rejected_under_any_expectation", idx, ok, "Err(auth/format class), no validator call", format!("{} calls={}", out.short(), main.calls.len()), &facts);
        }
        if !assert_match {
            cx.clause("C06", "altered_token_under_other_assertion_rejected", idx, out.is_err(), "Err", out.short(), &facts);
        }
        if !footer_match {
            cx.clause("C05", "altered_token_under_other_footer_rejected", idx, out.is_err(), "Err", out.short(), &facts);
        }
        if !key_match {
            cx.clause("C04", "altered_token_under_other_key_rejected", idx, out.is_err(), "Err", out.short(), &facts);
        }
    }
    if rel != Rel::Verbatim {
        return;
    }

    // ---------------------------------------------------------------------------------------
    // verbatim deliveries with a mismatching dimension: C04 / C05 / C06
    if !key_match || !footer_match || !assert_match {
        let facts = [
            ("proto", root.proto.name().to_string()),
            ("layer", format!("{:?}", v.layer)),
            ("site", panic_site.clone()),
            ("token_footer", format!("{:?}", root.footer)),
            ("expected_footer", format!("{:?}", v.footer)),
            ("token_assertion", format!("{:?}", root.assertion)),
            ("expected_assertion", format!("{:?}", v.assertion)),
        ];
        if !key_match {
            cx.clause("C04", "other_key_rejected", idx, out.is_err(), "Err", out.short(), &facts);
            if let Some(t) = twin {
                cx.clause("C04", "other_key_rejected", idx, t.outcome.is_err(), "Err (fresh parser)", t.outcome.short(), &facts);
            }
        }
        if !footer_match {
            cx.clause("C05", "other_footer_rejected", idx, out.is_err(), "Err", out.short(), &facts);
        }
        if !assert_match {
            cx.clause("C06", "other_assertion_rejected", idx, out.is_err(), "Err", out.short(), &facts);
            if !footer_match {
                let cat = |f: &Option<String>, a: &Option<String>| format!("{}{}", f.as_deref().unwrap_or(""), a.as_deref().unwrap_or(""));
                if cat(&root.footer, &root.assertion) == cat(&v.footer, &v.assertion) {
                    cx.clause("C06", "resplit_of_footer_and_assertion_rejected", idx, out.is_err(), "Err", out.short(), &facts);
                    cx.j.probe("footer_assertion_resplit_presented");
                }
            }
        }
        return;
    }

    // ---------------------------------------------------------------------------------------
    // from here on: authentic, verbatim, configuration matches.
    let control_ok = control.map(|c| c.outcome.is_ok());

    // C05/C06 equivalence of absent and empty (accept direction, relative to a control)
    let footer_other_form = v.footer != root.footer;
    let assert_other_form = v.proto.has_assertion() && v.assertion != root.assertion;

    // claims-level expectation
    let (missing, differing, lat_keys) = match (&json, is_parser_layer) {
        // (a JSON payload that is not an object has no members: every expectation is missing)
        (Some(j), true) => expectation_state(&v.expect, j),
        _ => (vec![], vec![], vec![]),
    };
    let numeric_lat = !lat_keys.is_empty();
    // an expectation whose key also has a validator registered is shadowed by it in the pinned
    // implementation; the statement of C15 does not know that exception
    let validator_keys: BTreeSet<String> = v.validators.iter().filter(|x| x.via != Via::ExtendOnly).map(|x| x.claim.key().to_string()).collect();
    let mut default_keys: BTreeSet<String> = BTreeSet::new();
    if v.default_validators && v.layer == Layer::Batteries {
        default_keys.insert("exp".into());
        default_keys.insert("nbf".into());
    }

    // validators per model
    let mut rejecting: Vec<usize> = vec![];
    if let Some(j) = &json {
        for (i, vs) in v.validators.iter().enumerate() {
            let val = j.get(vs.claim.key()).cloned().unwrap_or(Value::Null);
            let acc = match &vs.behaviour {
                crate::env::Behaviour::Accept => true,
                crate::env::Behaviour::Reject | crate::env::Behaviour::RejectAs(_) => false,
                crate::env::Behaviour::ExpectEq(x) => x == &val,
            };
            if !acc {
                rejecting.push(i);
            }
        }
    }

    // default time validators
    let (exp_m, nbf_m) = (root.member("exp"), root.member("nbf"));
    let time_tri = if v.default_validators && v.layer == Layer::Batteries {
        // a custom validator registered for exp/nbf replaces the default one
        let e = if validator_keys.contains("exp") { Tri::MustAccept } else { time_tri_exp(&exp_m, rmin, rmax) };
        let n = if validator_keys.contains("nbf") { Tri::MustAccept } else { time_tri_nbf(&nbf_m, rmin, rmax) };
        tri_and(e, n)
    } else {
        Tri::MustAccept
    };

    let payload_ok_for_layer = !is_parser_layer || json.is_some();
    let expectations_fail = !missing.is_empty() || !differing.is_empty();
    let plain = v.expect.is_empty() && v.validators.is_empty();

    // ---------------- C01/C02 round trip (zero-fault arm)
    if plain && payload_ok_for_layer && !footer_other_form && !assert_other_form {
        let pp = if root.proto.is_local() { "C01" } else { "C02" };
        match time_tri {
            Tri::MustAccept => {
                let ok = out.is_ok() && content_matches(&root.content, out);
                cx.clause(
                    pp,
                    "clean_delivery_returns_exact_message",
                    idx,
                    ok,
                    "Ok(exactly the original message)",
                    describe_mismatch(&root.content, out),
                    &[("proto", root.proto.name().into()), ("layer", format!("{:?}->{:?}", root.layer, v.layer)), ("site", panic_site.clone())],
                );
                if let Some(t) = twin {
                    let ok = t.outcome.is_ok() && content_matches(&root.content, &t.outcome);
                    cx.clause(pp, "clean_delivery_returns_exact_message", idx, ok, "Ok(exactly the original message) (fresh parser)", describe_mismatch(&root.content, &t.outcome), &[("proto", root.proto.name().into())]);
                }
                // the "if" half of C05 / C06 (accept IFF the same footer / assertion is supplied)
                if root.footer.as_deref().map_or(false, |f| !f.is_empty()) {
                    cx.clause("C05", "matching_footer_accepted", idx, ok, "accepted with the original content when exactly the token's footer is supplied", out.short(), &[("proto", root.proto.name().into()), ("layer", format!("{:?}", v.layer)), ("ascii", root.footer.as_deref().unwrap_or("").is_ascii().to_string())]);
                }
                if root.proto.has_assertion() && root.assertion.as_deref().map_or(false, |a| !a.is_empty()) {
                    cx.clause("C06", "matching_assertion_accepted", idx, ok, "accepted with the original content when exactly the token's assertion is supplied", out.short(), &[("proto", root.proto.name().into()), ("layer", format!("{:?}", v.layer))]);
                }
            }
            _ => {
                cx.unjudged(pp, "outside_validity_window");
            }
        }
    }

    // ---------------- C05 / C06 accept direction: none == ""
    if plain && payload_ok_for_layer && time_tri == Tri::MustAccept && (footer_other_form || assert_other_form) {
        let pp = if footer_other_form { "C05" } else { "C06" };
        match control_ok {
            Some(true) => {
                let ok = out.is_ok() && content_matches(&root.content, out);
                cx.clause(pp, "absent_and_empty_are_equivalent", idx, ok, "accepted with the original content (as the identical-form control is)", out.short(), &[("proto", root.proto.name().into()), ("layer", format!("{:?}", v.layer))]);
                cx.j.probe("absent_vs_empty_form_presented");
            }
            Some(false) => cx.unjudged(pp, "control_failed"),
            None => cx.unjudged(pp, "no_control"),
        }
    }

    // ---------------- read-back of builder tokens: C13 / C14 / C17
    if is_parser_layer && root.snapshot.is_some() && v.expect.is_empty() && rejecting.is_empty() && time_tri == Tri::MustAccept && !footer_other_form && !assert_other_form {
        // any parser that must accept the token (no expectations, only accepting validators, inside the
        // validity window) serves as read-back
        judge_readback(cx, idx, &root, out);
    }

    // ---------------- C11 / C12
    if v.default_validators && v.layer == Layer::Batteries && v.validators.is_empty() && json_obj {
        // with expectations registered only the reject direction is judged (whether an unexpired token is
        // accepted then also depends on the expectations, which is C15's business)
        judge_time(cx, idx, &root, &v, out, main, &exp_m, &nbf_m, rmin, rmax, control_ok, ticks, v.expect.is_empty());
    }

    // ---------------- C15
    if is_parser_layer && !v.expect.is_empty() && json.is_some() {
        let shadowed: Vec<String> = missing.iter().chain(differing.iter()).filter(|k| validator_keys.contains(*k) || default_keys.contains(*k)).cloned().collect();
        let facts = [
            ("proto", root.proto.name().to_string()),
            ("parser", format!("{:?}{}", v.layer, if v.default_validators { "::default" } else { "" })),
            ("missing", missing.join(",")),
            ("differing", differing.join(",")),
            ("shadowed_by_validator", shadowed.join(",")),
            ("via_extend", v.expect_via_extend.to_string()),
        ];
        if expectations_fail {
            cx.clause("C15", "unmet_expectation_never_succeeds", idx, !out.is_ok(), "Err", out.short(), &facts);
            if out.is_err() && rejecting.is_empty() && time_tri == Tri::MustAccept && shadowed.is_empty() {
                // the error must be a claim error naming a key that really fails
                let named = match out {
                    Outcome::Err { class: ErrClass::Claim, variant, args } => {
                        let k = args.first().cloned().unwrap_or_default();
                        let fails = missing.contains(&k) || differing.contains(&k) || lat_keys.contains(&k);
                        let kind_ok = if differing.is_empty() && lat_keys.is_empty() { variant == "Missing" } else { true };
                        fails && kind_ok
                    }
                    _ => false,
                };
                cx.clause("C15", "error_names_a_failing_claim", idx, named, &format!("claim error naming one of missing={:?} differing={:?}", missing, differing), out.short(), &facts);
            }
            if let Some(t) = twin {
                cx.clause("C15", "unmet_expectation_never_succeeds", idx, !t.outcome.is_ok(), "Err (fresh parser)", t.outcome.short(), &facts);
            }
        } else if numeric_lat {
            cx.unjudged("C15", "numeric_form_latitude");
            cx.j.probe("numeric_form_latitude_case");
        } else if rejecting.is_empty() && time_tri == Tri::MustAccept {
            match control_ok {
                Some(true) => {
                    let ok = out.is_ok() && content_matches(&root.content, out);
                    cx.clause("C15", "met_expectations_accepted", idx, ok, "Ok (as the expectation-free control)", out.short(), &facts);
                }
                Some(false) => cx.unjudged("C15", "control_failed"),
                None => cx.unjudged("C15", "no_control"),
            }
        }
        // history independence
        let tri_s = format!("{:?}", time_tri);
        let e = cx.history.entry((to, format!("{}|{}", m.text, serde_json::to_string(&v).unwrap_or_default()))).or_default();
        e.push((idx, tri_s, out.verdict_class().to_string()));
        if let Some(t) = twin {
            let same = t.outcome.verdict_class() == out.verdict_class();
            cx.clause("C15", "verdict_independent_of_parser_history", idx, same, &format!("fresh parser verdict {}", t.outcome.verdict_class()), out.short(), &[("deliveries_before", (ndeliv - 1).to_string())]);
        }
    }

    // ---------------- C16
    if is_parser_layer && !v.validators.is_empty() && json.is_some() {
        judge_validators(cx, idx, &root, &v, main, twin, &json, &rejecting, expectations_fail || numeric_lat, time_tri, control_ok);
    }
    if v.default_validators && v.layer == Layer::Batteries && json_obj && out.is_ok() {
        // default validators observed through the clock seam: each runs exactly once on success
        let n_exp = main.reads.iter().filter(|r| r.0 == "parser_exp").count();
        let n_nbf = main.reads.iter().filter(|r| r.0 == "parser_nbf").count();
        // the clock reads are a proxy for "the default validator body ran": at least once when the
        // member is a timestamp, never when it is absent; other member kinds are not judged here
        let chk = |m: &Member, n: usize, shadow: bool| -> bool {
            if shadow {
                return true;
            }
            match m {
                Member::Time { .. } => n >= 1,
                Member::Absent => n == 0,
                _ => true,
            }
        };
        let ok = chk(&exp_m, n_exp, validator_keys.contains("exp")) && chk(&nbf_m, n_nbf, validator_keys.contains("nbf"));
        cx.clause("C16", "default_validators_run_on_success", idx, ok, "default exp/nbf validators ran iff the member is present", format!("exp reads={} nbf reads={}", n_exp, n_nbf), &[]);
    }
}

fn acceptable_ok(root: &TokenInfo, _v: &VerifierSpec, out: &Outcome) -> bool {
    content_matches(&root.content, out)
}

fn describe_mismatch(content: &Content, out: &Outcome) -> String {
    match out {
        Outcome::OkStr(s) => match content {
            Content::Str(c) if c == s => "Ok(same)".into(),
            Content::Str(c) => format!("Ok(different content: {} bytes vs original {} bytes)", s.len(), c.len()),
            _ => "Ok(str)".into(),
        },
        Outcome::OkJson(j) => {
            if content_matches(content, out) {
                "Ok(same)".into()
            } else {
                let s = j.to_string();
                format!("Ok(different content: {})", if s.len() > 300 { format!("{}…", s.chars().take(300).collect::<String>()) } else { s })
            }
        }
        o => o.short(),
    }
}

fn judge_readback(cx: &mut Ctx, idx: usize, root: &TokenInfo, out: &Outcome) {
    let snap = match &root.snapshot {
        Some(s) => s.clone(),
        None => return,
    };
    let build_ev = root.event;
    if !cx.readback_done.insert(build_ev) {
        return;
    }
    let o = match out {
        Outcome::OkJson(Value::Object(o)) => o.clone(),
        _ => {
            for pp in ["C13", "C17"] {
                cx.unjudged(pp, "readback_failed");
            }
            if snap.layer == Layer::Generic {
                // C14: the matching parser must return the object that equals the claims that were set; an
                // authentic token of the generic builder that cannot be read back at all does not
                cx.clause(
                    "C14",
                    "parsed_claims_equal_set_claims",
                    root.event,
                    false,
                    &format!("exactly {}", root.json().map(|j| j.to_string()).unwrap_or_default()),
                    out.short(),
                    &[("proto", root.proto.name().to_string()), ("build_event", root.event.to_string())],
                );
            }
            return;
        }
    };
    let nth = snap.builds_ok + snap.builds_failed;
    let facts = [
        ("proto", root.proto.name().to_string()),
        ("nth_build", nth.to_string()),
        ("after_failed_build", (snap.builds_failed > 0).to_string()),
        ("build_event", build_ev.to_string()),
    ];
    if snap.layer == Layer::Generic {
        let ok = content_matches(&root.content, out);
        cx.clause("C14", "parsed_claims_equal_set_claims", build_ev, ok, &format!("exactly {}", root.json().map(|j| j.to_string()).unwrap_or_default()), describe_mismatch(&root.content, out), &facts);
        cx.j.nontrivial |= cx.is("C14") && snap.ops >= 2;
        return;
    }
    // ---- batteries
    cx.j.nontrivial |= (cx.is("C13") || cx.is("C17")) && (snap.ops >= 1 || nth > 0);
    let has_exp = o.get("exp").map_or(false, |v| !v.is_null());
    if snap.ack {
        cx.clause("C13", "acknowledged_token_has_no_exp", build_ev, !o.contains_key("exp"), "no exp member", format!("exp={:?}", o.get("exp")), &facts);
    } else {
        cx.clause("C13", "token_has_exp", build_ev, has_exp, "an exp member", Value::Object(o.clone()).to_string(), &facts);
    }
    // every default the caller did not replace is still the creation-time default (compared as instants):
    // iat == nbf == T_c and exp == T_c + 1h, independently of which other claims were set
    {
        let get = |k: &str| o.get(k).and_then(|v| v.as_str()).and_then(civil::parse);
        let mut ok = true;
        let mut judged = 0;
        if !snap.supplied.contains("iat") {
            judged += 1;
            ok &= get("iat") == Some(snap.created);
        }
        if !snap.supplied.contains("nbf") {
            judged += 1;
            ok &= get("nbf") == Some(snap.created);
        }
        if !snap.supplied.contains("exp") && !snap.ack {
            judged += 1;
            ok &= get("exp") == Some(snap.created + 3600 * civil::NS);
        }
        if judged > 0 {
            cx.clause(
                "C13",
                "defaults_are_creation_time_and_one_hour",
                build_ev,
                ok,
                &format!("each default not replaced by the caller: iat == nbf == {} and exp == +1h (as instants)", civil::render(snap.created, civil::Style { offset_min: 0, frac_digits: 9, sep: 'T', zulu: Some('Z') })),
                format!("iat={:?} nbf={:?} exp={:?} (caller supplied {:?})", o.get("iat"), o.get("nbf"), o.get("exp"), snap.supplied),
                &facts,
            );
        }
    }
    // C17: caller-supplied values replace the defaults
    if snap.dups.is_empty() {
        let mut ok = true;
        let mut bad = String::new();
        for k in snap.supplied.iter() {
            if (k == "exp" && snap.ack) || k.is_empty() {
                // (the builder documents that it ignores empty keys)
                continue;
            }
            match (snap.claims.get(k), o.get(k)) {
                (Some(MVal::Json(v)), Some(w)) if v == w => {}
                (Some(MVal::Json(Value::Null)), None) => {}
                (a, b) => {
                    ok = false;
                    bad = format!("{}: set {:?}, token has {:?}", k, a, b);
                }
            }
        }
        cx.clause("C17", "supplied_values_replace_defaults", build_ev, ok, "each caller-supplied value present", bad, &facts);
    }
    let _ = idx;
}

#[allow(clippy::too_many_arguments)]
fn judge_time(
    cx: &mut Ctx,
    idx: usize,
    root: &TokenInfo,
    v: &VerifierSpec,
    out: &Outcome,
    main: &DeliverObs,
    exp_m: &Member,
    nbf_m: &Member,
    rmin: i128,
    rmax: i128,
    control_ok: Option<bool>,
    ticks: &[Ns],
    accept_direction: bool,
) {
    let e = time_tri_exp(exp_m, rmin, rmax);
    let n = time_tri_nbf(nbf_m, rmin, rmax);
    let facts = |m: &Member, which: &str| -> Vec<(&'static str, String)> {
        let kind = match m {
            Member::Absent => "absent".to_string(),
            Member::Null => "null".to_string(),
            Member::Time { .. } => "timestamp".to_string(),
            Member::Dubious => "odd_separator".to_string(),
            Member::Malformed => "malformed_timestamp".to_string(),
            Member::NonTime(v) => format!(
                "non_timestamp:{}",
                match v {
                    Value::String(s) if s.is_empty() => "empty_string",
                    Value::String(_) => "text",
                    Value::Number(_) => "number",
                    Value::Bool(_) => "bool",
                    Value::Array(_) => "array",
                    Value::Object(_) => "object",
                    Value::Null => "null",
                }
            ),
        };
        vec![("proto", root.proto.name().to_string()), ("member", which.to_string()), ("kind", kind)]
    };
    // probes
    for (m, name) in [(exp_m, "exp"), (nbf_m, "nbf")] {
        if let Member::Time { t, .. } = m {
            let d = (*t - rmin).abs();
            if d == 0 {
                cx.j.probe(&format!("{}_equals_now", name));
            } else if d <= 1_000 {
                cx.j.probe(&format!("{}_within_1us_of_now", name));
            } else if d <= civil::NS {
                cx.j.probe(&format!("{}_within_1s_of_now", name));
            }
            if *t > rmin && *t <= rmax {
                cx.j.probe(&format!("{}_crossed_by_intra_parse_tick", name));
            }
        }
    }
    if ticks.iter().any(|t| t.0 < 0) {
        cx.j.probe("clock_stepped_backwards_during_parse");
    }
    if ticks.iter().any(|t| t.0 >= 3600 * civil::NS) {
        cx.j.probe("vm_pause_during_parse");
    }
    let _ = main;
    let f_e = facts(exp_m, "exp");
    let f_n = facts(nbf_m, "nbf");
    // ---- C11
    match e {
        Tri::MustReject => {
            let name = if matches!(exp_m, Member::NonTime(_)) { "non_timestamp_exp_rejected" } else if matches!(exp_m, Member::Malformed) { "malformed_timestamp_exp_rejected" } else { "expired_rejected" };
            cx.clause("C11", name, idx, out.is_err(), "Err", out.short(), &f_e);
            cx.j.nontrivial |= cx.is("C11");
        }
        Tri::MustAccept if !accept_direction => cx.unjudged("C11", "expectations_registered"),
        Tri::MustAccept => {
            if n == Tri::MustAccept {
                match control_ok {
                    Some(true) | None => {
                        let ok = out.is_ok() && content_matches(&root.content, out);
                        let name = if matches!(exp_m, Member::Absent) { "no_exp_accepted" } else { "future_exp_accepted" };
                        cx.clause("C11", name, idx, ok, "Ok with the original content", out.short(), &f_e);
                    }
                    Some(false) => cx.unjudged("C11", "control_failed"),
                }
            } else {
                cx.unjudged("C11", "nbf_decides");
            }
        }
        Tri::Either => cx.unjudged("C11", "latitude"),
    }
    // ---- C12
    match n {
        Tri::MustReject => {
            let name = if matches!(nbf_m, Member::NonTime(_)) { "non_timestamp_nbf_rejected" } else if matches!(nbf_m, Member::Malformed) { "malformed_timestamp_nbf_rejected" } else { "not_yet_valid_rejected" };
            cx.clause("C12", name, idx, out.is_err(), "Err", out.short(), &f_n);
            cx.j.nontrivial |= cx.is("C12");
        }
        Tri::MustAccept if !accept_direction => cx.unjudged("C12", "expectations_registered"),
        Tri::MustAccept => {
            if e == Tri::MustAccept {
                match control_ok {
                    Some(true) | None => {
                        let ok = out.is_ok() && content_matches(&root.content, out);
                        let name = if matches!(nbf_m, Member::Absent) { "no_nbf_accepted" } else { "past_nbf_accepted" };
                        cx.clause("C12", name, idx, ok, "Ok with the original content", out.short(), &f_n);
                    }
                    Some(false) => cx.unjudged("C12", "control_failed"),
                }
            } else {
                cx.unjudged("C12", "exp_decides");
            }
        }
        Tri::Either => cx.unjudged("C12", "latitude"),
    }
    let _ = v;
}

#[allow(clippy::too_many_arguments)]
fn judge_validators(
    cx: &mut Ctx,
    idx: usize,
    root: &TokenInfo,
    v: &VerifierSpec,
    main: &DeliverObs,
    twin: Option<&DeliverObs>,
    json: &Option<Value>,
    rejecting: &[usize],
    expectations_fail: bool,
    time_tri: Tri,
    control_ok: Option<bool>,
) {
    let j = match json {
        Some(j) => j,
        None => return,
    };
    let out = &main.outcome;
    cx.j.nontrivial |= cx.is("C16");
    let base_facts = |extra: &[(&'static str, String)]| -> Vec<(&'static str, String)> {
        let mut f = vec![
            ("proto", root.proto.name().to_string()),
            ("parser", format!("{:?}{}", v.layer, if v.default_validators { "::default" } else { "" })),
        ];
        f.extend_from_slice(extra);
        f
    };
    for (which, d) in [("main", Some(main)), ("twin", twin)] {
        let d = match d {
            Some(d) => d,
            None => continue,
        };
        // (2) every call carries the registration key and the real value
        for c in &d.calls {
            let spec = v.validators.get(c.slot);
            let ok = match spec {
                Some(s) => {
                    let k = s.claim.key();
                    let val_ok = match (&root.content, &c.value) {
                        // default iat/nbf/exp are rendered by the library: compare as instants
                        (Content::Claims(m), Value::String(got)) if matches!(m.get(k), Some(MVal::Instant(_))) => match m.get(k) {
                            Some(MVal::Instant(t)) => civil::parse(got) == Some(*t),
                            _ => false,
                        },
                        _ => c.value == j.get(k).cloned().unwrap_or(Value::Null),
                    };
                    c.key == k && val_ok
                }
                None => false,
            };
            cx.clause(
                "C16",
                "validator_sees_its_key_and_the_real_value",
                idx,
                ok,
                &format!("(key, payload[key]) of registration #{}", c.slot),
                format!("called with ({:?}, {})", c.key, c.value),
                &base_facts(&[("which", which.to_string())]),
            );
        }
        // (5) no validator runs twice
        let mut seen = BTreeSet::new();
        let twice = d.calls.iter().any(|c| !seen.insert(c.slot));
        cx.clause("C16", "no_validator_runs_twice", idx, !twice, "each registration called at most once per parse", format!("{:?}", d.calls.iter().map(|c| c.slot).collect::<Vec<_>>()), &base_facts(&[]));
        // (3)/(4) verdict honoured
        let o = &d.outcome;
        // registrations that are in force: a later registration under the same key replaces an earlier one
        let mut in_force: BTreeMap<String, usize> = BTreeMap::new();
        for (i, s) in v.validators.iter().enumerate() {
            in_force.insert(s.claim.key().to_string(), i);
        }
        let active: Vec<usize> = in_force.values().cloned().collect();
        let any_returned_err = d.calls.iter().any(|c| !c.returned_ok);
        if any_returned_err {
            cx.clause("C16", "validator_error_fails_the_parse", idx, matches!(o, Outcome::Err { class: ErrClass::Claim, .. }), "Err(claim error)", o.short(), &base_facts(&[]));
        }
        let active_rejecting: Vec<usize> = rejecting.iter().cloned().filter(|i| active.contains(i)).collect();
        if !active_rejecting.is_empty() {
            let vias: Vec<String> = active_rejecting.iter().map(|i| format!("{:?}", v.validators[*i].via)).collect();
            let keys_s: Vec<String> = active_rejecting.iter().map(|i| v.validators[*i].claim.key().to_string()).collect();
            cx.clause(
                "C16",
                "rejecting_validator_is_honoured",
                idx,
                !o.is_ok(),
                "Err",
                o.short(),
                &base_facts(&[("via", vias.join(",")), ("keys", keys_s.join(","))]),
            );
        }
        if o.is_ok() {
            let mut ok = true;
            let mut why = String::new();
            for i in &active {
                let n = d.calls.iter().filter(|c| c.slot == *i).count();
                let all_ok = d.calls.iter().filter(|c| c.slot == *i).all(|c| c.returned_ok);
                if n != 1 || !all_ok {
                    ok = false;
                    why = format!("registration #{} ({:?}, via {:?}) ran {} time(s)", i, v.validators[*i].claim.key(), v.validators[*i].via, n);
                }
            }
            let vias: Vec<String> = active.iter().filter(|i| d.calls.iter().filter(|c| c.slot == **i).count() != 1).map(|i| format!("{:?}", v.validators[*i].via)).collect();
            cx.clause(
                "C16",
                "success_means_every_validator_ran_once_and_accepted",
                idx,
                ok,
                "every registered validator ran exactly once and returned Ok",
                why,
                &base_facts(&[("via", vias.join(","))]),
            );
        } else if active_rejecting.is_empty() && !expectations_fail && time_tri == Tri::MustAccept && which == "main" && !v.validators.iter().any(|x| x.claim.is_unserialisable()) {
            match control_ok {
                Some(true) => {
                    cx.clause("C16", "all_accepting_validators_do_not_block", idx, false, "Ok (control parser accepts and every validator accepts)", o.short(), &base_facts(&[]));
                }
                _ => cx.unjudged("C16", "no_control_or_control_failed"),
            }
        }
    }
    // probe: order in which validators ran
    if main.calls.len() >= 2 {
        let order: Vec<String> = main.calls.iter().map(|c| c.slot.to_string()).collect();
        cx.j.probe(&format!("validator_order:{}of{}:{}", main.calls.len(), v.validators.len(), order.join(">")));
    }
}

fn finish(cx: &mut Ctx) {
    // ---- C15 history independence across positions of the stream
    let hist = std::mem::take(&mut cx.history);
    for ((_v, _text), list) in hist {
        let mut by_tri: BTreeMap<String, Vec<(usize, String)>> = BTreeMap::new();
        for (idx, tri, verdict) in list {
            by_tri.entry(tri).or_default().push((idx, verdict));
        }
        for (_tri, l) in by_tri {
            if l.len() >= 2 {
                let first = l[0].1.clone();
                for (idx, vd) in l.iter().skip(1) {
                    cx.clause("C15", "same_token_same_verdict_at_every_position", *idx, *vd == first, &format!("{} (as at its first delivery)", first), vd.clone(), &[]);
                }
                cx.j.probe("same_token_delivered_repeatedly_to_one_parser");
            }
        }
    }
    // ---- C10 distinctness
    let nonces = std::mem::take(&mut cx.nonces);
    for ((proto, _key), list) in nonces {
        if list.len() < 2 {
            continue;
        }
        let mut seen_n: BTreeMap<Vec<u8>, usize> = BTreeMap::new();
        let mut seen_t: BTreeMap<String, usize> = BTreeMap::new();
        let mut ok_n = true;
        let mut ok_t = true;
        let mut at = 0usize;
        for (idx, n, t) in &list {
            if let Some(_prev) = seen_n.insert(n.clone(), *idx) {
                ok_n = false;
                at = *idx;
            }
            if let Some(_prev) = seen_t.insert(t.clone(), *idx) {
                ok_t = false;
                at = *idx;
            }
        }
        let last = list.last().unwrap().0;
        cx.clause("C10", "nonces_pairwise_distinct", if ok_n { last } else { at }, ok_n, "all nonce fields distinct under one key", format!("repeat among {} builds", list.len()), &[("proto", proto.name().into())]);
        cx.clause("C10", "tokens_pairwise_distinct", if ok_t { last } else { at }, ok_t, "all tokens distinct under one key", format!("repeat among {} builds", list.len()), &[("proto", proto.name().into())]);
        cx.j.nontrivial |= cx.is("C10");
        // per-position statistics (only meaningful for long histories)
        let n = list.len();
        if n >= 256 {
            let len = list[0].1.len();
            let mut const_pos = None;
            for p in 0..len {
                let b0 = list[0].1[p];
                if list.iter().all(|x| x.1[p] == b0) {
                    const_pos = Some(p);
                }
            }
            cx.clause("C10", "no_constant_nonce_byte", last, const_pos.is_none(), "every nonce byte position varies", format!("byte {:?} constant over {} builds", const_pos, n), &[("proto", proto.name().into())]);
            let bound = 10.0 * (n as f64).sqrt() / 2.0;
            let mut worst = 0f64;
            let mut worst_bit = 0usize;
            for bit in 0..len * 8 {
                let ones = list.iter().filter(|x| x.1[bit / 8] >> (bit % 8) & 1 == 1).count();
                let dev = (ones as f64 - n as f64 / 2.0).abs();
                if dev > worst {
                    worst = dev;
                    worst_bit = bit;
                }
            }
            cx.clause("C10", "nonce_bits_unbiased", last, worst <= bound, &format!("|ones - N/2| <= 10*sqrt(N)/2 = {:.1} for every bit", bound), format!("bit {} deviates by {:.1} over {} builds", worst_bit, worst, n), &[("proto", proto.name().into())]);
            cx.j.probe("nonce_statistics_evaluated");
            // value coverage: with N >= 16384 uniform samples a given byte value is absent from a given position
            // with probability (255/256)^N <= e^-64; over 32 positions x 256 values that is < 2^-64 per history
            if n >= 16_384 {
                let mut missing: Option<(usize, usize)> = None;
                let mut nmissing = 0usize;
                for p in 0..len {
                    let mut seen = [false; 256];
                    for x in list.iter() {
                        seen[x.1[p] as usize] = true;
                    }
                    for (v, s) in seen.iter().enumerate() {
                        if !*s {
                            nmissing += 1;
                            missing = Some((p, v));
                        }
                    }
                }
                cx.clause("C10", "every_byte_value_occurs_at_every_nonce_position", last, missing.is_none(), "all 256 values occur at every nonce byte position", format!("{} (position, value) pairs never occur over {} builds, e.g. {:?}", nmissing, n, missing), &[("proto", proto.name().into())]);
                cx.j.probe("nonce_value_coverage_evaluated");
            }
        }
    }
    // ---- C06 non-storage: same (key, nonce, message, footer), different assertion => same length
    let groups = std::mem::take(&mut cx.issue_groups);
    for (_k, list) in groups {
        if list.len() < 2 {
            continue;
        }
        let l0 = list[0].2.len();
        let distinct_a: BTreeSet<_> = list.iter().map(|x| x.1.clone()).collect();
        if distinct_a.len() < 2 {
            continue;
        }
        let ok = list.iter().all(|x| x.2.len() == l0);
        let idx = list.last().unwrap().0;
        cx.clause("C06", "token_length_independent_of_assertion", idx, ok, "equal token lengths", format!("{:?}", list.iter().map(|x| x.2.len()).collect::<Vec<_>>()), &[]);
        cx.j.nontrivial |= cx.is("C06");
    }
    // builds whose token was never read back
    let pend: Vec<usize> = cx.pending_readback.values().cloned().filter(|e| !cx.readback_done.contains(e)).collect();
    for _ in pend {
        for pp in ["C13", "C14", "C17"] {
            cx.unjudged(pp, "token_not_read_back");
        }
    }
}

/// For scenario-specific judges that add clauses computed from extra executions (C10's entropy arms).
#[allow(clippy::too_many_arguments)]
pub fn add_clause(j: &mut Judgement, prop: &str, name: &str, event: usize, ok: bool, expected: &str, observed: String, facts: &[(&str, String)]) {
    let cname = format!("{}.{}", prop, name);
    *j.clauses.entry(cname.clone()).or_insert(0) += 1;
    j.evaluations += 1;
    j.trace.push(format!("{}:{}", cname, if ok { "held" } else { "VIOLATED" }));
    if !ok {
        let mut f = BTreeMap::new();
        for (k, v) in facts {
            f.insert(k.to_string(), v.clone());
        }
        j.violations.push(Violation { event, property: prop.to_string(), clause: cname, expected: expected.to_string(), observed, facts: f });
    }
}

pub fn add_probe(j: &mut Judgement, name: &str) {
    *j.probes.entry(name.to_string()).or_insert(0) += 1;
}
